//! gcv-shapes: one generated function per shape of TraceShape.tla (src/gen.rs is written by
//! /verif/gen/render_shapes.py from TLC's enumeration).  Each builds the value, traces it with
//! a recording implementation of the public `Trace` trait, reads NEEDS_TRACE, and prints one
//! observation line.  No oracle here: ShapeTrace.tla judges.
#![allow(dead_code, unused_variables, unused_mut, unused_imports, non_camel_case_types, clippy::all)]

use gc_arena::{Collect, Gc, GcWeak, Mutation, collect::Trace};

#[derive(Default)]
pub struct Rec {
    strong: Vec<usize>,
    weak: Vec<usize>,
}

impl<'gc> Trace<'gc> for Rec {
    fn trace_gc(&mut self, gc: Gc<'gc, ()>) {
        self.strong.push(Gc::as_ptr(gc) as usize);
    }
    fn trace_gc_weak(&mut self, gc: GcWeak<'gc, ()>) {
        self.weak.push(gc.as_ptr() as usize);
    }
}

/// The pointers the generated code put into the value.
#[derive(Default)]
pub struct Exp {
    strong: Vec<usize>,
    weak: Vec<usize>,
    next: u32,
}

impl Exp {
    pub fn s<'gc>(&mut self, mc: &Mutation<'gc>) -> Gc<'gc, u32> {
        self.next += 1;
        let g = Gc::new(mc, self.next);
        self.strong.push(Gc::as_ptr(g) as usize);
        g
    }
    pub fn w<'gc>(&mut self, mc: &Mutation<'gc>) -> GcWeak<'gc, u32> {
        self.next += 1;
        let g = Gc::new(mc, self.next);
        self.weak.push(Gc::as_ptr(g) as usize);
        Gc::downgrade(g)
    }
    pub fn n(&mut self) -> u32 {
        self.next += 1;
        self.next
    }
    pub fn os<'gc>(&mut self, mc: &Mutation<'gc>) -> Option<Gc<'gc, u32>> {
        Some(self.s(mc))
    }
    pub fn vs<'gc>(&mut self, mc: &Mutation<'gc>) -> Vec<Gc<'gc, u32>> {
        vec![self.s(mc), self.s(mc)]
    }
    pub fn bw<'gc>(&mut self, mc: &Mutation<'gc>) -> Box<GcWeak<'gc, u32>> {
        Box::new(self.w(mc))
    }
    /// a strong pointer to a value of any collectable type (self-referential shapes)
    pub fn g<'gc, T: Collect<'gc> + 'gc>(&mut self, mc: &Mutation<'gc>, v: T) -> Gc<'gc, T> {
        let g = Gc::new(mc, v);
        self.strong.push(Gc::as_ptr(g) as usize);
        g
    }
    pub fn gw<'gc, T: Collect<'gc> + 'gc>(&mut self, mc: &Mutation<'gc>, v: T) -> GcWeak<'gc, T> {
        let g = Gc::new(mc, v);
        self.weak.push(Gc::as_ptr(g) as usize);
        Gc::downgrade(g)
    }
}

pub fn needs<'gc, T: Collect<'gc> + ?Sized>(_: &T) -> bool {
    T::NEEDS_TRACE
}

pub fn observe<'gc, T: Collect<'gc> + ?Sized>(id: usize, v: &T, mut e: Exp) -> String {
    let mut r = Rec::default();
    r.trace(v);
    r.strong.sort();
    r.weak.sort();
    e.strong.sort();
    e.weak.sort();
    format!(
        "{{\"id\":{},\"strong\":{},\"weak\":{},\"sets_ok\":{},\"needs_trace\":{},\"put_strong\":{},\"put_weak\":{}}}",
        id,
        r.strong.len(),
        r.weak.len(),
        r.strong == e.strong && r.weak == e.weak,
        needs(v),
        e.strong.len(),
        e.weak.len()
    )
}

mod generated;

fn main() {
    let mut out = String::new();
    gc_arena::arena::rootless_mutate(|mc| {
        generated::run_all(mc, &mut out);
    });
    print!("{out}");
}
