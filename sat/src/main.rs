//! gcv-sat: replayers for the satellite specifications (Layout.tla, Builder.tla, Convert.tla).
//! Like the core harness it executes and records; the TLA+ trace specifications judge.

#[path = "../../harness/src/alloc.rs"]
mod alloc;
mod builders;
mod convert;
mod layouts;

use std::io::{BufRead, Write};

#[global_allocator]
pub static ALLOC: alloc::Tracking = alloc::Tracking::new();

fn arg(args: &[String], name: &str) -> Option<String> {
    args.iter().position(|a| a == name).and_then(|i| args.get(i + 1).cloned())
}

fn main() {
    let args: Vec<String> = std::env::args().collect();
    std::panic::set_hook(Box::new(|_| {}));
    let input = arg(&args, "--in").expect("--in");
    let output = arg(&args, "--out").expect("--out");
    let f = std::io::BufReader::new(std::fs::File::open(&input).expect("open input"));
    let mut out = std::io::BufWriter::new(std::fs::File::create(&output).expect("create output"));
    let mut n = 0usize;
    for line in f.lines() {
        let line = line.expect("read");
        if line.trim().is_empty() {
            continue;
        }
        let v: serde_json::Value = serde_json::from_str(&line).expect("json");
        let rec = match args.get(1).map(|s| s.as_str()) {
            Some("layout") => layouts::probe(&v),
            Some("builder") => builders::probe(&v),
            Some("convert") => convert::probe(&v),
            _ => {
                eprintln!("usage: gcv-sat layout|builder|convert --in <grid.ndjson> --out <obs.ndjson>");
                std::process::exit(2);
            }
        };
        writeln!(out, "{}", rec).unwrap();
        n += 1;
    }
    out.flush().unwrap();
    eprintln!("{n} records");
}
