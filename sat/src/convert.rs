//! C19: apply every conversion chain enumerated by Convert.tla to a real pointer and record
//! identity (address, ptr_eq), dereference, and collector identity (what storing ONLY the final
//! handle keeps alive; destructed once, as the original type).  Plus the ZST-cache grid.

use std::cell::RefCell;

use gc_arena::{
    Arena, Collect, DynamicRootSet, Gc, GcSlice, GcSliceBuilder, GcStr, GcThinSlice, GcThinStr, GcWeak, Mutation, Rootable,
    Static, unsize,
    zst_cache::ZstCache,
};
use serde_json::{Value, json};

use crate::ALLOC;

thread_local! {
    static DROPS: RefCell<Vec<(&'static str, u32)>> = const { RefCell::new(Vec::new()) };
}
fn take_drops() -> Vec<(&'static str, u32)> {
    DROPS.with(|d| std::mem::take(&mut *d.borrow_mut()))
}

pub trait Named {
    fn id(&self) -> u32;
}
pub struct Tok(u32);
impl Drop for Tok {
    fn drop(&mut self) {
        DROPS.with(|d| d.borrow_mut().push(("Tok", self.0)));
    }
}
impl Named for Static<Tok> {
    fn id(&self) -> u32 {
        self.0.0
    }
}
pub struct ZTok;
impl Drop for ZTok {
    fn drop(&mut self) {
        DROPS.with(|d| d.borrow_mut().push(("ZTok", 0)));
    }
}
impl Named for Static<ZTok> {
    fn id(&self) -> u32 {
        4242
    }
}

#[derive(Collect)]
#[collect(no_drop)]
struct Root<'gc> {
    set: DynamicRootSet<'gc>,
    held: Option<Gc<'gc, ()>>,
    wheld: Option<GcWeak<'gc, ()>>,
}
type A = Arena<Rootable![Root<'_>]>;

/// A handle in some view.  `Out` is what every chain ends in: the erased strong or weak pointer,
/// its address, and (where the view can be dereferenced) whether it reads the original value.
struct Out<'gc> {
    strong: Option<Gc<'gc, ()>>,
    weak: Option<GcWeak<'gc, ()>>,
    addr: usize,
    deref_ok: Option<bool>,
}

macro_rules! sized_like {
    ($fname:ident, $x:ty, $expect_id:expr) => {
        fn $fname<'gc>(mc: &Mutation<'gc>, set: DynamicRootSet<'gc>, orig: Gc<'gc, Static<$x>>, chain: &[String]) -> Option<Out<'gc>> {
            enum H<'gc> {
                Typed(Gc<'gc, Static<$x>>),
                Unit(Gc<'gc, ()>),
                Weak(GcWeak<'gc, Static<$x>>),
                WeakUnit(GcWeak<'gc, ()>),
                Dyn(Gc<'gc, dyn Named>),
                WeakDyn(GcWeak<'gc, dyn Named>),
            }
            let mut h = H::Typed(orig);
            for c in chain {
                h = match (h, c.as_str()) {
                    (H::Typed(g), "erase") => H::Unit(Gc::erase(g)),
                    (H::Typed(g), "erase_kind") => H::Typed(Gc::erase_kind(g)),
                    (H::Typed(g), "downgrade") => H::Weak(Gc::downgrade(g)),
                    (H::Typed(g), "raw") => H::Typed(unsafe { Gc::from_ptr(Gc::as_ptr(g)) }),
                    (H::Typed(g), "unsize") => H::Dyn(unsize!(g => dyn Named)),
                    (H::Typed(g), "stash_fetch") => {
                        let handle = set.stash::<Static<$x>>(mc, g);
                        let back = set.try_fetch(&handle).ok()?;
                        // the handle is dropped right away: only the fetched pointer continues
                        H::Typed(back)
                    }
                    (H::Unit(g), "erase") => H::Unit(Gc::erase(g)),
                    (H::Unit(g), "downgrade") => H::WeakUnit(Gc::downgrade(g)),
                    (H::Unit(g), "raw") => H::Unit(unsafe { Gc::from_ptr(Gc::as_ptr(g)) }),
                    (H::Weak(w), "upgrade") => H::Typed(w.upgrade(mc)?),
                    (H::Weak(w), "erase") => H::WeakUnit(GcWeak::erase(w)),
                    (H::Weak(w), "unsize") => H::WeakDyn(unsize!(w => dyn Named)),
                    (H::WeakUnit(w), "upgrade") => H::Unit(w.upgrade(mc)?),
                    (H::Dyn(g), "erase") => H::Unit(Gc::erase(g)),
                    (H::Dyn(g), "erase_kind") => H::Dyn(Gc::erase_kind(g)),
                    (H::Dyn(g), "downgrade") => H::WeakDyn(Gc::downgrade(g)),
                    (H::Dyn(g), "raw") => H::Dyn(unsafe { Gc::from_ptr(Gc::as_ptr(g)) }),
                    (H::WeakDyn(w), "upgrade") => H::Dyn(w.upgrade(mc)?),
                    (H::WeakDyn(w), "erase") => H::WeakUnit(GcWeak::erase(w)),
                    _ => return None,
                };
            }
            Some(match h {
                H::Typed(g) => Out { strong: Some(Gc::erase(g)), weak: None, addr: Gc::as_ptr(g) as *const u8 as usize, deref_ok: Some(g.id() == $expect_id) },
                H::Unit(g) => Out { strong: Some(g), weak: None, addr: Gc::as_ptr(g) as usize, deref_ok: None },
                H::Weak(w) => Out { strong: None, weak: Some(GcWeak::erase(w)), addr: w.as_ptr() as *const u8 as usize, deref_ok: None },
                H::WeakUnit(w) => Out { strong: None, weak: Some(w), addr: w.as_ptr() as usize, deref_ok: None },
                H::Dyn(g) => Out { strong: Some(Gc::erase(g)), weak: None, addr: Gc::as_ptr(g) as *const u8 as usize, deref_ok: Some(g.id() == $expect_id) },
                H::WeakDyn(w) => Out { strong: None, weak: Some(GcWeak::erase(w)), addr: w.as_ptr() as *const u8 as usize, deref_ok: None },
            })
        }
    };
}
sized_like!(chain_sized, Tok, 77);
sized_like!(chain_zst, ZTok, 4242);

fn chain_slice<'gc>(mc: &Mutation<'gc>, orig: GcSlice<'gc, Tok>, chain: &[String]) -> Option<Out<'gc>> {
    enum H<'gc> {
        Typed(GcSlice<'gc, Tok>),
        Unit(Gc<'gc, ()>),
        Weak(GcWeak<'gc, [Tok], gc_arena::gc::GcKind<gc_arena::gc::Fat, (), gc_arena::slice::SlicePtrMeta>>),
        WeakUnit(GcWeak<'gc, ()>),
        Thin(GcThinSlice<'gc, Tok>),
        WeakThin(GcWeak<'gc, [Tok], gc_arena::gc::GcKind<gc_arena::gc::Thin, (), gc_arena::slice::SlicePtrMeta>>),
    }
    let mut h = H::Typed(orig);
    for c in chain {
        h = match (h, c.as_str()) {
            (H::Typed(g), "erase") => H::Unit(Gc::erase(g)),
            (H::Typed(g), "erase_kind") => {
                // Gc<[T]> with the default kind has lost its thin metadata type; come back through the raw pointer
                let e: Gc<'gc, [Tok]> = Gc::erase_kind(g);
                H::Typed(unsafe { Gc::from_ptr_with_kind(Gc::as_ptr(e)) })
            }
            (H::Typed(g), "downgrade") => H::Weak(Gc::downgrade(g)),
            (H::Typed(g), "raw") => H::Typed(unsafe { Gc::from_ptr_with_kind(Gc::as_ptr(g)) }),
            (H::Typed(g), "as_thin") => H::Thin(Gc::as_thin(g)),
            (H::Unit(g), "erase") => H::Unit(Gc::erase(g)),
            (H::Unit(g), "downgrade") => H::WeakUnit(Gc::downgrade(g)),
            (H::Unit(g), "raw") => H::Unit(unsafe { Gc::from_ptr(Gc::as_ptr(g)) }),
            (H::Weak(w), "upgrade") => H::Typed(w.upgrade(mc)?),
            (H::Weak(w), "erase") => H::WeakUnit(GcWeak::erase(w)),
            (H::WeakUnit(w), "upgrade") => H::Unit(w.upgrade(mc)?),
            (H::Thin(g), "as_fat") => H::Typed(Gc::as_fat(g)),
            (H::Thin(g), "erase") => H::Unit(Gc::erase(g)),
            (H::Thin(g), "downgrade") => H::WeakThin(Gc::downgrade(g)),
            (H::Thin(g), "raw") => H::Thin(unsafe { Gc::from_thin_ptr_with_kind(Gc::as_thin_ptr(g)) }),
            (H::WeakThin(w), "upgrade") => H::Thin(w.upgrade(mc)?),
            (H::WeakThin(w), "erase") => H::WeakUnit(GcWeak::erase(w)),
            _ => return None,
        };
    }
    let ok = |s: &[Tok]| s.len() == 3 && s.iter().enumerate().all(|(i, t)| t.0 == 10 + i as u32);
    Some(match h {
        H::Typed(g) => Out { strong: Some(Gc::erase(g)), weak: None, addr: Gc::as_ptr(g) as *const u8 as usize, deref_ok: Some(ok(&g)) },
        H::Unit(g) => Out { strong: Some(g), weak: None, addr: Gc::as_ptr(g) as usize, deref_ok: None },
        H::Weak(w) => Out { strong: None, weak: Some(GcWeak::erase(w)), addr: w.as_ptr() as *const u8 as usize, deref_ok: None },
        H::WeakUnit(w) => Out { strong: None, weak: Some(w), addr: w.as_ptr() as usize, deref_ok: None },
        H::Thin(g) => Out { strong: Some(Gc::erase(g)), weak: None, addr: Gc::as_ptr(g) as *const u8 as usize, deref_ok: Some(ok(&g)) },
        H::WeakThin(w) => Out { strong: None, weak: Some(GcWeak::erase(w)), addr: w.as_ptr() as *const u8 as usize, deref_ok: None },
    })
}

fn chain_str<'gc>(mc: &Mutation<'gc>, orig: GcStr<'gc>, chain: &[String]) -> Option<Out<'gc>> {
    enum H<'gc> {
        Typed(GcStr<'gc>),
        Unit(Gc<'gc, ()>),
        Weak(GcWeak<'gc, str, gc_arena::gc::GcKind<gc_arena::gc::Fat, (), gc_arena::slice::StrPtrMeta>>),
        WeakUnit(GcWeak<'gc, ()>),
        Thin(GcThinStr<'gc>),
        WeakThin(GcWeak<'gc, str, gc_arena::gc::GcKind<gc_arena::gc::Thin, (), gc_arena::slice::StrPtrMeta>>),
    }
    let mut h = H::Typed(orig);
    for c in chain {
        h = match (h, c.as_str()) {
            (H::Typed(g), "erase") => H::Unit(Gc::erase(g)),
            (H::Typed(g), "erase_kind") => {
                let e: Gc<'gc, str> = Gc::erase_kind(g);
                H::Typed(unsafe { Gc::from_ptr_with_kind(Gc::as_ptr(e)) })
            }
            (H::Typed(g), "downgrade") => H::Weak(Gc::downgrade(g)),
            (H::Typed(g), "raw") => H::Typed(unsafe { Gc::from_ptr_with_kind(Gc::as_ptr(g)) }),
            (H::Typed(g), "as_thin") => H::Thin(Gc::as_thin(g)),
            (H::Unit(g), "erase") => H::Unit(Gc::erase(g)),
            (H::Unit(g), "downgrade") => H::WeakUnit(Gc::downgrade(g)),
            (H::Unit(g), "raw") => H::Unit(unsafe { Gc::from_ptr(Gc::as_ptr(g)) }),
            (H::Weak(w), "upgrade") => H::Typed(w.upgrade(mc)?),
            (H::Weak(w), "erase") => H::WeakUnit(GcWeak::erase(w)),
            (H::WeakUnit(w), "upgrade") => H::Unit(w.upgrade(mc)?),
            (H::Thin(g), "as_fat") => H::Typed(Gc::as_fat(g)),
            (H::Thin(g), "erase") => H::Unit(Gc::erase(g)),
            (H::Thin(g), "downgrade") => H::WeakThin(Gc::downgrade(g)),
            (H::Thin(g), "raw") => H::Thin(unsafe { Gc::from_thin_ptr_with_kind(Gc::as_thin_ptr(g)) }),
            (H::WeakThin(w), "upgrade") => H::Thin(w.upgrade(mc)?),
            (H::WeakThin(w), "erase") => H::WeakUnit(GcWeak::erase(w)),
            _ => return None,
        };
    }
    Some(match h {
        H::Typed(g) => Out { strong: Some(Gc::erase(g)), weak: None, addr: Gc::as_ptr(g) as *const u8 as usize, deref_ok: Some(&*g == "conversion") },
        H::Unit(g) => Out { strong: Some(g), weak: None, addr: Gc::as_ptr(g) as usize, deref_ok: None },
        H::Weak(w) => Out { strong: None, weak: Some(GcWeak::erase(w)), addr: w.as_ptr() as *const u8 as usize, deref_ok: None },
        H::WeakUnit(w) => Out { strong: None, weak: Some(w), addr: w.as_ptr() as usize, deref_ok: None },
        H::Thin(g) => Out { strong: Some(Gc::erase(g)), weak: None, addr: Gc::as_ptr(g) as *const u8 as usize, deref_ok: Some(&*g == "conversion") },
        H::WeakThin(w) => Out { strong: None, weak: Some(GcWeak::erase(w)), addr: w.as_ptr() as *const u8 as usize, deref_ok: None },
    })
}

fn probe_chain(target: &str, chain: &[String]) -> Value {
    ALLOC.reset();
    take_drops();
    let mut arena = A::new(|mc| Root { set: DynamicRootSet::new(mc), held: None, wheld: None });
    let mut applied = false;
    let mut same_addr = false;
    let mut ptr_eq = false;
    let mut deref_ok: Option<bool> = None;
    let mut strong = false;
    let parts: usize = match target {
        "sized" | "zst" => 1,
        "slice" => 3,
        _ => 0,
    };
    arena.mutate_root(|mc, root| {
        let set = root.set;
        let (orig_unit, orig_addr, out): (Gc<'_, ()>, usize, Option<Out<'_>>) = match target {
            "sized" => {
                ALLOC.arm(1);
                let g: Gc<'_, Static<Tok>> = Gc::new(mc, Static(Tok(77)));
                ALLOC.disarm();
                (Gc::erase(g), Gc::as_ptr(g) as usize, chain_sized(mc, set, g, chain))
            }
            "zst" => {
                ALLOC.arm(1);
                let g: Gc<'_, Static<ZTok>> = Gc::new(mc, Static(ZTok));
                ALLOC.disarm();
                (Gc::erase(g), Gc::as_ptr(g) as usize, chain_zst(mc, set, g, chain))
            }
            "slice" => {
                ALLOC.arm(1);
                let b = GcSliceBuilder::<Static<Tok>>::new(3);
                ALLOC.disarm();
                let g: GcSlice<'_, Tok> = b.unwrap_static().write_slice_with(mc, |i| Tok(10 + i as u32));
                (Gc::erase(g), Gc::as_ptr(g) as *const u8 as usize, chain_slice(mc, g, chain))
            }
            _ => {
                ALLOC.arm(1);
                let g: GcStr<'_> = GcStr::new_str(mc, "conversion");
                ALLOC.disarm();
                (Gc::erase(g), Gc::as_ptr(g) as *const u8 as usize, chain_str(mc, g, chain))
            }
        };
        if let Some(o) = out {
            applied = true;
            same_addr = o.addr == orig_addr;
            deref_ok = o.deref_ok;
            strong = o.strong.is_some();
            ptr_eq = match (o.strong, o.weak) {
                (Some(s), _) => Gc::ptr_eq(s, orig_unit),
                (_, Some(w)) => GcWeak::ptr_eq(w, Gc::downgrade(orig_unit)),
                _ => false,
            };
            // store ONLY the final handle
            root.held = o.strong;
            root.wheld = o.weak;
        }
    });
    arena.finish_cycle();
    arena.finish_cycle();
    let drops_kept = take_drops();
    let rel_kept = ALLOC.drain_releases().into_iter().filter(|r| r.tag == 1).count();
    let (weak_dropped, weak_upgrades, still_reads) = arena.mutate(|mc, root| {
        (
            root.wheld.map(|w| w.is_dropped()),
            root.wheld.map(|w| w.upgrade(mc).is_some()),
            root.held.is_some(),
        )
    });
    arena.mutate_root(|_mc, root| {
        root.held = None;
        root.wheld = None;
    });
    arena.finish_cycle();
    arena.finish_cycle();
    let drops_final = take_drops();
    let rel_final: Vec<_> = ALLOC.drain_releases().into_iter().filter(|r| r.tag == 1).collect();
    let count_final = arena.metrics().total_gc_count() as i64;
    drop(arena);
    let type_ok = |d: &Vec<(&'static str, u32)>| match target {
        "sized" => d.iter().all(|x| *x == ("Tok", 77)),
        "zst" => d.iter().all(|x| x.0 == "ZTok"),
        "slice" => {
            let mut ids: Vec<u32> = d.iter().map(|x| x.1).collect();
            ids.sort();
            d.iter().all(|x| x.0 == "Tok") && (ids.is_empty() || ids == vec![10, 11, 12])
        }
        _ => d.is_empty(),
    };
    let total = drops_kept.len() + drops_final.len();
    ALLOC.reset();
    json!({"ev": "convert", "target": target, "chain": chain, "supported": true, "obs": {
        "applied": applied, "same_addr": same_addr, "ptr_eq": ptr_eq,
        "derefs": deref_ok.is_some(), "deref_ok": deref_ok.unwrap_or(true), "strong": strong,
        "survived": drops_kept.is_empty() && rel_kept == 0 && still_reads == strong,
        "destructed_while_only_weak": drops_kept.len() == parts,
        "weak_is_dropped": weak_dropped.unwrap_or(false), "weak_upgrades": weak_upgrades.unwrap_or(false),
        "destructs_total": total as i64, "parts": parts as i64,
        "types_ok": type_ok(&drops_kept) && type_ok(&drops_final),
        "released_once": rel_kept + rel_final.len() == 1 && rel_final.iter().all(|r| r.req == r.rel && !r.double),
        "count_final": count_final,
    }})
}

// ------------------------------------------------------------------ ZST cache grid
pub trait Marker {
    fn which(&self) -> u8;
}

macro_rules! zst_types {
    ($($name:ident / $nameb:ident / $nz:ident = $a:literal),*) => {
        $(
            #[repr(align($a))]
            struct $name;
            #[repr(align($a))]
            struct $nameb;
            impl Marker for $name { fn which(&self) -> u8 { 1 } }
            impl Marker for $nameb { fn which(&self) -> u8 { 2 } }
            #[repr(align($a))]
            #[allow(dead_code)]
            struct $nz(u8);
            impl Marker for $nz { fn which(&self) -> u8 { 1 } }
        )*
        fn probe_zst_point(align: usize, max: usize, zst: bool) -> Option<Value> {
            $(
                if align == $a {
                    return Some(match (max, zst) {
                        (1, true) => zst_one::<$name, $nameb, 1>(|| $name, || $nameb, $a),
                        (8, true) => zst_one::<$name, $nameb, 8>(|| $name, || $nameb, $a),
                        (16, true) => zst_one::<$name, $nameb, 16>(|| $name, || $nameb, $a),
                        (1, false) => zst_one::<$nz, $nz, 1>(|| $nz(1), || $nz(2), $a),
                        (8, false) => zst_one::<$nz, $nz, 8>(|| $nz(1), || $nz(2), $a),
                        (16, false) => zst_one::<$nz, $nz, 16>(|| $nz(1), || $nz(2), $a),
                        _ => return None,
                    });
                }
            )*
            None
        }
    };
}
zst_types!(Z1 / Y1 / N1 = 1, Z2 / Y2 / N2 = 2, Z4 / Y4 / N4 = 4, Z8 / Y8 / N8 = 8, Z16 / Y16 / N16 = 16, Z32 / Y32 / N32 = 32, Z64 / Y64 / N64 = 64);

/// The cache as a heap value (the field of a struct behind a `Gc`), so that NEEDS_TRACE decides whether the
/// collector ever looks at it.
#[derive(Collect)]
#[collect(no_drop)]
struct CacheBox<'gc, const MAX: usize> {
    cache: ZstCache<'gc, MAX>,
}
#[derive(Collect)]
#[collect(no_drop)]
struct ZRoot<'gc, const MAX: usize> {
    boxed: Option<Gc<'gc, CacheBox<'gc, MAX>>>,
    handed: Option<Gc<'gc, ()>>,
}

/// Collector identity of the cache's shared allocation: kept alive by the cache, kept alive by a pointer the
/// cache handed out (iff it was the shared one), released once neither exists.
fn zst_liveness<T: Marker + 'static, const MAX: usize>(make: impl Fn() -> T) -> (bool, bool, bool, bool)
where
    gc_arena::zst_cache::Alignment<MAX>: gc_arena::zst_cache::ValidAlignment,
{
    ALLOC.reset();
    let alive = || ALLOC.block_by_tag(2).map(|b| !b.released).unwrap_or(false);
    let mut arena = Arena::<Rootable![ZRoot<'_, MAX>]>::new(|_| ZRoot { boxed: None, handed: None });
    arena.mutate_root(|mc, root| {
        ALLOC.arm(2);
        let cache = ZstCache::<MAX>::new(mc);
        ALLOC.disarm();
        root.boxed = Some(Gc::new(mc, CacheBox { cache }));
    });
    arena.finish_cycle();
    arena.finish_cycle();
    let kept_by_cache = alive();
    let mut handed_is_shared = false;
    arena.mutate_root(|mc, root| {
        let cache = root.boxed.unwrap().cache;
        let z = cache.alloc_static(mc, make());
        handed_is_shared = Gc::ptr_eq(Gc::erase(z), cache.cached_ptr());
        root.handed = Some(Gc::erase(z));
        root.boxed = None;
    });
    arena.finish_cycle();
    arena.finish_cycle();
    let kept_by_handed = alive();
    arena.mutate_root(|_, root| root.handed = None);
    arena.finish_cycle();
    arena.finish_cycle();
    let rel: Vec<_> = ALLOC.drain_releases().into_iter().filter(|r| r.tag == 2).collect();
    let released_once = rel.len() == 1 && rel.iter().all(|r| r.req == r.rel && !r.double);
    drop(arena);
    ALLOC.reset();
    (kept_by_cache, handed_is_shared, kept_by_handed, released_once)
}

fn zst_one<T: Marker + 'static, U: Marker + 'static, const MAX: usize>(make: impl Fn() -> T, make_b: impl Fn() -> U, align: usize) -> Value
where
    gc_arena::zst_cache::Alignment<MAX>: gc_arena::zst_cache::ValidAlignment,
{
    let mut out = json!({});
    gc_arena::arena::rootless_mutate(|mc| {
        let cache = ZstCache::<MAX>::new(mc);
        let a = cache.alloc_static(mc, make());
        let b = cache.alloc_static(mc, make());
        let pa = Gc::as_ptr(a) as usize;
        // two pointers of ONE static type (Gc<dyn Marker>) to the same allocation with DIFFERENT metadata:
        // a second zero-sized type from the same cache, both unsized to the same trait object type
        let c = cache.alloc_static(mc, make_b());
        let da: Gc<'_, dyn Marker> = unsize!(a => dyn Marker);
        let dc: Gc<'_, dyn Marker> = unsize!(c => dyn Marker);
        let same_alloc = Gc::ptr_eq(Gc::erase(a), Gc::erase(c));
        out = json!({
            "dyn_ptr_eq": Gc::ptr_eq(da, dc), "dyn_weak_ptr_eq": GcWeak::ptr_eq(Gc::downgrade(da), Gc::downgrade(dc)),
            "dyn_same_alloc": same_alloc, "dyn_values": [da.which(), dc.which()],
            "cached": cache.is_cached(a), "cached_again": cache.is_cached(b),
            "shared": Gc::ptr_eq(Gc::erase(a), Gc::erase(b)),
            "is_cache_ptr": Gc::ptr_eq(Gc::erase(a), cache.cached_ptr()),
            "aligned": pa % align == 0,
            "cache_ptr_aligned": Gc::as_ptr(cache.cached_ptr()) as usize % MAX == 0,
        });
    });
    let (kept_by_cache, handed_is_shared, kept_by_handed, released_once) = zst_liveness::<T, MAX>(&make);
    out["kept_by_cache"] = json!(kept_by_cache);
    out["handed_is_shared"] = json!(handed_is_shared);
    out["kept_by_handed"] = json!(kept_by_handed);
    out["shared_released_once"] = json!(released_once);
    out
}

pub fn probe(v: &Value) -> Value {
    if let Some(z) = v.get("zst") {
        let g = |k: &str| z.get(k).and_then(|x| x.as_u64()).unwrap_or(0) as usize;
        let zst = z.get("zst").and_then(|x| x.as_bool()).unwrap_or(false);
        return match probe_zst_point(g("align"), g("max"), zst) {
            Some(o) => json!({"ev": "zst", "zst": z, "obs": o, "supported": true}),
            None => json!({"ev": "zst", "zst": z, "supported": false}),
        };
    }
    let target = v["target"].as_str().unwrap_or("");
    let chain: Vec<String> = v["chain"].as_array().map(|a| a.iter().filter_map(|x| x.as_str().map(|s| s.to_string())).collect()).unwrap_or_default();
    probe_chain(target, &chain)
}
