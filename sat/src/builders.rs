//! C18: replay every builder life cycle enumerated by Builder.tla and record what happened:
//! which parts were destructed (and when), whether the block went back with its layout,
//! whether the arena saw the allocation (count, debt), whether a completed value holds what
//! was written, and that no later collection visits an abandoned allocation.

use std::cell::RefCell;
use std::panic::{AssertUnwindSafe, catch_unwind};

use gc_arena::{
    Arena, Collect, Gc, GcBuilder, GcSliceBuilder, GcSliceWithHeaderBuilder, GcStrBuilder, Mutation, Rootable, Static,
};
use serde_json::{Value, json};

use crate::ALLOC;

thread_local! {
    static DROPS: RefCell<Vec<i64>> = const { RefCell::new(Vec::new()) };
}
fn log_drop(part: i64) {
    DROPS.with(|d| d.borrow_mut().push(part));
}
fn take_drops() -> Vec<i64> {
    DROPS.with(|d| std::mem::take(&mut *d.borrow_mut()))
}

#[derive(Collect)]
#[collect(no_drop)]
struct Root<'gc> {
    held: Vec<Gc<'gc, ()>>,
}
type A = Arena<Rootable![Root<'_>]>;

struct HTok(u32);
impl Drop for HTok {
    fn drop(&mut self) {
        log_drop(-1);
    }
}

trait BElem: 'static + Sized {
    fn make(i: usize) -> Self;
    fn ok(&self, i: usize) -> bool;
}
struct DTok(u32);
impl Drop for DTok {
    fn drop(&mut self) {
        log_drop(self.0 as i64);
    }
}
impl BElem for DTok {
    fn make(i: usize) -> Self {
        DTok(i as u32)
    }
    fn ok(&self, i: usize) -> bool {
        self.0 == i as u32
    }
}
#[repr(align(32))]
struct ATok(u32);
impl Drop for ATok {
    fn drop(&mut self) {
        log_drop(self.0 as i64);
    }
}
impl BElem for ATok {
    fn make(i: usize) -> Self {
        ATok(i as u32)
    }
    fn ok(&self, i: usize) -> bool {
        self.0 == i as u32 && (self as *const ATok as usize) % 32 == 0
    }
}
struct ZTok;
impl Drop for ZTok {
    fn drop(&mut self) {
        log_drop(1000);
    }
}
impl BElem for ZTok {
    fn make(_i: usize) -> Self {
        ZTok
    }
    fn ok(&self, _i: usize) -> bool {
        true
    }
}

struct Lc {
    kind: String,
    n: usize,
    hdr: bool,
    k: usize,
    end: String,
}

/// Runs the life cycle inside a callback.  Returns (erased pointer if completed, contents ok).
fn run_elems<'gc, E: BElem>(mc: &Mutation<'gc>, lc: &Lc) -> (Option<Gc<'gc, ()>>, bool) {
    let n = lc.n;
    let fail_at = if lc.end == "panic" { Some(lc.k) } else { None };
    let make = move |i: usize| -> E {
        if Some(i) == fail_at {
            std::panic::resume_unwind(Box::new("injected"));
        }
        E::make(i)
    };
    match lc.kind.as_str() {
        "swh" => {
            ALLOC.arm(1);
            let b = GcSliceWithHeaderBuilder::<Static<HTok>, Static<E>>::new(n);
            ALLOC.disarm();
            if !lc.hdr {
                drop(b);
                return (None, true);
            }
            let sb = b.unwrap_static_header().write_header(HTok(7));
            if lc.end == "abandon" {
                drop(sb);
                return (None, true);
            }
            let g = sb.unwrap_static_element().write_slice_with(mc, make);
            let ok = g.header.0 == 7 && g.slice.len() == n && g.slice.iter().enumerate().all(|(i, e)| e.ok(i));
            (Some(Gc::erase(Gc::erase_kind(g))), ok)
        }
        "slice" => {
            ALLOC.arm(1);
            let b = GcSliceBuilder::<Static<E>>::new(n);
            ALLOC.disarm();
            if lc.end == "abandon" {
                drop(b);
                return (None, true);
            }
            let g = b.unwrap_static().write_slice_with(mc, make);
            let ok = g.len() == n && g.iter().enumerate().all(|(i, e)| e.ok(i));
            (Some(Gc::erase(Gc::erase_kind(g))), ok)
        }
        "gc" => {
            ALLOC.arm(1);
            let b = GcBuilder::<Static<E>>::new();
            ALLOC.disarm();
            if lc.end == "abandon" {
                drop(b);
                return (None, true);
            }
            let g = b.unwrap_static().write(mc, E::make(0));
            let ok = g.ok(0);
            (Some(Gc::erase(g)), ok)
        }
        _ => (None, false),
    }
}

fn run_copy<'gc>(mc: &Mutation<'gc>, lc: &Lc) -> (Option<Gc<'gc, ()>>, bool) {
    let n = lc.n;
    let src_len = if lc.end == "copy_bad" { n + 1 } else { n };
    let src: Vec<u64> = (0..src_len).map(|i| 0x0101_0101_0101_0101u64.wrapping_mul(i as u64 + 1)).collect();
    match lc.kind.as_str() {
        "swh" => {
            ALLOC.arm(1);
            let b = GcSliceWithHeaderBuilder::<Static<HTok>, Static<u64>>::new(n);
            ALLOC.disarm();
            if !lc.hdr {
                drop(b);
                return (None, true);
            }
            let sb = b.unwrap_static_header().write_header(HTok(7));
            if lc.end == "abandon" {
                drop(sb);
                return (None, true);
            }
            let g = sb.unwrap_static_element().copy_slice(mc, &src);
            let ok = g.header.0 == 7 && g.slice[..] == src[..];
            (Some(Gc::erase(Gc::erase_kind(g))), ok)
        }
        "slice" => {
            ALLOC.arm(1);
            let b = GcSliceBuilder::<Static<u64>>::new(n);
            ALLOC.disarm();
            if lc.end == "abandon" {
                drop(b);
                return (None, true);
            }
            let g = b.unwrap_static().copy_slice(mc, &src);
            let ok = g[..] == src[..];
            (Some(Gc::erase(Gc::erase_kind(g))), ok)
        }
        "str" => {
            let text: String = (0..src_len).map(|i| (b'a' + (i % 26) as u8) as char).collect();
            ALLOC.arm(1);
            let b = GcStrBuilder::new(n);
            ALLOC.disarm();
            if lc.end == "abandon" {
                drop(b);
                return (None, true);
            }
            let g = b.copy_str(mc, &text);
            let ok = &*g == text.as_str();
            (Some(Gc::erase(Gc::erase_kind(g))), ok)
        }
        _ => (None, false),
    }
}

pub fn probe(v: &Value) -> Value {
    let l = &v["lc"];
    let lc = Lc {
        kind: l["kind"].as_str().unwrap_or("").to_string(),
        n: l["n"].as_u64().unwrap_or(0) as usize,
        hdr: l["hdr"].as_bool().unwrap_or(false),
        k: l["k"].as_u64().unwrap_or(0) as usize,
        end: l["end"].as_str().unwrap_or("").to_string(),
    };
    let ekind = l["ekind"].as_str().unwrap_or("").to_string();
    ALLOC.reset();
    take_drops();
    let mut arena = A::new(|_mc| Root { held: Vec::new() });
    // give the arena some standing debt so that "debt unchanged" is not trivially 0 = 0
    arena.mutate_root(|mc, root| root.held.push(Gc::erase(Gc::new(mc, 1u8))));
    arena.metrics().adjust_debt(5.0);
    let count_before = arena.metrics().total_gc_count() as i64;
    let debt_before = arena.metrics().allocation_debt();
    let mut contents_ok = true;
    let mut completed = false;
    let r = catch_unwind(AssertUnwindSafe(|| {
        arena.mutate_root(|mc, root| {
            let (g, ok) = match ekind.as_str() {
                "drop" => run_elems::<DTok>(mc, &lc),
                "align" => run_elems::<ATok>(mc, &lc),
                "zst" => run_elems::<ZTok>(mc, &lc),
                _ => run_copy(mc, &lc),
            };
            contents_ok = ok;
            if let Some(g) = g {
                completed = true;
                root.held.push(g);
            }
        })
    }));
    ALLOC.disarm();
    let panicked = r.is_err();
    let drops_builder = take_drops();
    let rel_builder: Vec<_> = ALLOC.drain_releases().into_iter().filter(|r| r.tag == 1).collect();
    let count_after = arena.metrics().total_gc_count() as i64;
    let debt_after = arena.metrics().allocation_debt();
    let blk = ALLOC.block_by_tag(1);
    // collections while the completed value is rooted / after an abandonment: nothing of the
    // builder's allocation may be visited
    arena.finish_cycle();
    arena.finish_cycle();
    let drops_rooted = take_drops();
    let rel_rooted: Vec<_> = ALLOC.drain_releases().into_iter().filter(|r| r.tag == 1).collect();
    // unroot and collect: a completed value is now destructed, once, part by part
    arena.mutate_root(|_mc, root| {
        root.held.truncate(1);
    });
    arena.finish_cycle();
    arena.finish_cycle();
    let drops_final = take_drops();
    let rel_final: Vec<_> = ALLOC.drain_releases().into_iter().filter(|r| r.tag == 1).collect();
    let count_final = arena.metrics().total_gc_count() as i64;
    drop(arena);
    let uniq = |v: &Vec<i64>| {
        let mut e: Vec<i64> = v.iter().copied().filter(|x| *x >= 0 && *x < 1000).collect();
        let n = e.len();
        e.sort();
        e.dedup();
        (e.len() == n, e.len() as i64 + v.iter().filter(|x| **x == 1000).count() as i64, e.iter().enumerate().all(|(i, x)| *x == i as i64))
    };
    let (b_uniq, b_elems, b_prefix) = uniq(&drops_builder);
    let (f_uniq, f_elems, f_prefix) = uniq(&drops_final);
    let layout_ok = |rs: &Vec<crate::alloc::Release>| rs.iter().all(|r| r.req == r.rel && !r.double && r.guard_ok);
    let obs = json!({
        "tracked": blk.is_some(),
        "panicked": panicked,
        "linked": completed,
        "released": rel_builder.len() == 1,
        "release_ok": layout_ok(&rel_builder) && rel_builder.len() <= 1,
        "count_delta": count_after - count_before,
        "debt_unchanged": debt_after == debt_before,
        "debt_grew_by_one": debt_after == debt_before + 1.0,
        "dropped_h": drops_builder.iter().filter(|x| **x == -1).count() as i64,
        "dropped_elems": b_elems, "dropped_unique": b_uniq, "dropped_prefix": b_prefix,
        "contents_ok": contents_ok,
        "visited_while_kept": drops_rooted.len() as i64 + rel_rooted.len() as i64,
        "final_h": drops_final.iter().filter(|x| **x == -1).count() as i64,
        "final_elems": f_elems, "final_unique": f_uniq, "final_prefix": f_prefix,
        "final_released": rel_final.len() as i64, "final_release_ok": layout_ok(&rel_final),
        "count_final": count_final - count_before,
    });
    ALLOC.reset();
    json!({"ev": "builder", "lc": l, "obs": obs, "supported": true})
}
