//! C17: allocate every point of Layout.tla's grid through the public API and record what the
//! allocator saw, where the value lies, whether its bytes and address survive collections in
//! every phase, what layout is handed back, and the fat/thin/raw round trips.

use gc_arena::{
    Arena, Collect, Gc, GcSlice, GcSliceWithHeaderBuilder, GcStr, GcThinSlice, GcThinSliceWithHeader, GcThinStr, Rootable,
    Static,
    metrics::Pacing,
};
use serde_json::{Value, json};

use crate::ALLOC;

#[derive(Collect)]
#[collect(no_drop)]
struct Root<'gc> {
    held: Vec<Gc<'gc, ()>>,
}

type A = Arena<Rootable![Root<'_>]>;

macro_rules! aligned {
    ($name:ident, $a:literal) => {
        #[repr(C, align($a))]
        #[derive(Clone, Copy)]
        pub struct $name<const N: usize>(pub [u8; N]);
    };
}
aligned!(A1, 1);
aligned!(A2, 2);
aligned!(A4, 4);
aligned!(A8, 8);
aligned!(A16, 16);
aligned!(A32, 32);
aligned!(A64, 64);
aligned!(A128, 128);
aligned!(A4096, 4096);

fn pat(i: usize, salt: usize) -> u8 {
    (i.wrapping_mul(31).wrapping_add(salt).wrapping_add(7)) as u8
}

struct Obs {
    tag: u32,
    addr: usize,
    align_needed: usize,
    data_len: usize,
    salt: usize,
    extra: Value,
}

/// Run collections in every phase while the value is rooted, checking address and bytes; then
/// unroot it, collect, and look at the release.
fn lifecycle(arena: &mut A, obs: Obs, read: &dyn Fn(&A, usize) -> Option<(usize, Vec<u8>)>) -> Value {
    let blk = ALLOC.block_by_tag(obs.tag);
    let mut addr_stable = true;
    let mut bytes_ok = true;
    let mut guard_ok = true;
    let expect: Vec<u8> = (0..obs.data_len).map(|i| pat(i, obs.salt)).collect();
    let mut check = |arena: &A| {
        match read(arena, 0) {
            Some((a, bytes)) => {
                addr_stable &= a == obs.addr;
                bytes_ok &= bytes == expect;
            }
            None => bytes_ok = false,
        }
        if let Some(b) = ALLOC.block_by_tag(obs.tag) {
            guard_ok &= ALLOC.guards_ok(&b) && !b.released;
        }
    };
    // step through a whole cycle, one increment at a time, then two more atomic cycles
    arena.metrics().set_pacing(Pacing { sleep_factor: 0.0, min_sleep: 0, mark_factor: 0.0, trace_factor: 1.0, keep_factor: 1.0, drop_factor: 0.0, free_factor: 1.0 });
    check(arena);
    for _ in 0..6 {
        arena.metrics().adjust_debt(0.5);
        arena.collect_debt();
        check(arena);
    }
    arena.finish_marking();
    check(arena);
    if let Some(m) = arena.finish_marking() {
        m.start_sweeping();
    }
    check(arena);
    arena.finish_cycle();
    check(arena);
    arena.finish_cycle();
    check(arena);
    // let go
    arena.mutate_root(|_mc, root| root.held.clear());
    arena.finish_cycle();
    arena.finish_cycle();
    let rel: Vec<_> = ALLOC.drain_releases().into_iter().filter(|r| r.tag == obs.tag).collect();
    let (rel_size, rel_align, double, rel_guard) = match rel.as_slice() {
        [r] => (r.rel.0 as i64, r.rel.1 as i64, r.double, r.guard_ok),
        [] => (-1, -1, false, true),
        rs => (rs[0].rel.0 as i64, rs[0].rel.1 as i64, true, rs[0].guard_ok),
    };
    json!({
        "tracked": blk.is_some(),
        "block_size": blk.map(|b| b.size as i64).unwrap_or(-1),
        "block_align": blk.map(|b| b.align as i64).unwrap_or(-1),
        "value_off": blk.map(|b| obs.addr as i64 - b.user as i64).unwrap_or(-1),
        "ptr_aligned": obs.addr % obs.align_needed == 0,
        "addr_stable": addr_stable, "bytes_ok": bytes_ok, "guard_ok": guard_ok && rel_guard,
        "rel_size": rel_size, "rel_align": rel_align, "released_once": rel.len() == 1 && !double,
        "count_after": arena.metrics().total_gc_count() as i64,
        "extra": obs.extra,
    })
}

fn new_arena() -> A {
    A::new(|_mc| Root { held: Vec::new() })
}

fn sized<T: Copy + 'static>(align: usize, n: usize, make: impl Fn(usize) -> T, data: impl Fn(&T) -> &[u8] + 'static) -> Value {
    ALLOC.reset();
    let mut arena = new_arena();
    let tag = 1;
    let salt = n + align;
    let addr = arena.mutate_root(|mc, root| {
        let v = make(salt);
        ALLOC.arm(tag);
        let g: Gc<'_, T> = Gc::new_static(mc, v);
        ALLOC.disarm();
        // raw pointer round trip
        let p = Gc::as_ptr(g);
        let back: Gc<'_, T> = unsafe { Gc::from_ptr(p) };
        assert!(Gc::ptr_eq(g, back));
        root.held.push(Gc::erase(g));
        p as usize
    });
    let read = move |arena: &A, _k: usize| {
        arena.mutate(|_mc, root| {
            let e = *root.held.first()?;
            let g: Gc<'_, T> = unsafe { Gc::cast::<T>(e) };
            Some((Gc::as_ptr(g) as usize, data(&*g).to_vec()))
        })
    };
    lifecycle(&mut arena, Obs { tag, addr, align_needed: align, data_len: n, salt, extra: json!({"ptr_rt": true}) }, &read)
}

macro_rules! sized_for_type {
    ($out:ident, $bytes:expr, $ty:ident, $a:literal; [$($n:literal),*]) => {
        match $bytes {
            $( $n => $out = Some(sized::<$ty<$n>>($a, $n, |s| $ty::<$n>(std::array::from_fn(|i| pat(i, s))), |v| &v.0[..])), )*
            _ => {}
        }
    };
}

macro_rules! sized_dispatch {
    ($bytes:expr, $align:expr; $ns:tt; $($ty:ident = $a:literal),*) => {{
        let mut out: Option<Value> = None;
        $(
            if $align == $a {
                sized_for_type!(out, $bytes, $ty, $a; $ns);
            }
        )*
        out
    }};
}

fn probe_sized(bytes: usize, align: usize) -> Option<Value> {
    sized_dispatch!(bytes, align; [0, 1, 2, 3, 4, 5, 7, 8, 9, 12, 15, 16, 17, 24, 31, 32, 33, 40, 48, 63, 64, 65, 72];
        A1 = 1, A2 = 2, A4 = 4, A8 = 8, A16 = 16, A32 = 32, A64 = 64, A128 = 128, A4096 = 4096)
}

// ------------------------------------------------------------------ slices
#[derive(Clone, Copy)]
#[repr(C, align(32))]
struct E32([u8; 32]);

trait Elem: Copy + 'static {
    const SIZE: usize;
    fn make(i: usize, salt: usize) -> Self;
    fn bytes(&self) -> Vec<u8>;
}
macro_rules! elem_bytes {
    ($t:ty, $n:literal) => {
        impl Elem for $t {
            const SIZE: usize = $n;
            fn make(i: usize, salt: usize) -> Self {
                let b: [u8; $n] = std::array::from_fn(|k| pat(i * $n + k, salt));
                unsafe { std::mem::transmute_copy::<[u8; $n], $t>(&b) }
            }
            fn bytes(&self) -> Vec<u8> {
                let b: [u8; $n] = unsafe { std::mem::transmute_copy::<$t, [u8; $n]>(self) };
                b.to_vec()
            }
        }
    };
}
elem_bytes!((), 0);
elem_bytes!(u8, 1);
elem_bytes!(u16, 2);
elem_bytes!(u32, 4);
elem_bytes!(u64, 8);
elem_bytes!(u128, 16);
elem_bytes!([u8; 3], 3);
elem_bytes!([u32; 3], 12);
impl Elem for E32 {
    const SIZE: usize = 32;
    fn make(i: usize, salt: usize) -> Self {
        E32(std::array::from_fn(|k| pat(i * 32 + k, salt)))
    }
    fn bytes(&self) -> Vec<u8> {
        self.0.to_vec()
    }
}

fn slice<E: Elem>(ealign: usize, len: usize) -> Value {
    ALLOC.reset();
    let mut arena = new_arena();
    let tag = 1;
    let salt = len + E::SIZE;
    let mut extra = json!({});
    let addr = arena.mutate_root(|mc, root| {
        let v: Vec<E> = (0..len).map(|i| E::make(i, salt)).collect();
        ALLOC.arm(tag);
        let g: GcSlice<'_, E> = GcSlice::new_slice_static(mc, &v);
        ALLOC.disarm();
        let thin: GcThinSlice<'_, E> = Gc::as_thin(g);
        let fat: GcSlice<'_, E> = Gc::as_fat(thin);
        let p = Gc::as_ptr(g);
        let back: GcSlice<'_, E> = unsafe { Gc::from_ptr_with_kind(p) };
        extra = json!({
            "thin_addr_same": Gc::as_ptr(thin) as *const u8 as usize == p as *const u8 as usize,
            "thin_len": thin.len() as i64, "fat_len": fat.len() as i64, "fat_ptr_eq": Gc::ptr_eq(g, fat),
            "ptr_rt": Gc::ptr_eq(g, back) && back.len() == len, "len": g.len() as i64,
            "thin_ptr_size": std::mem::size_of_val(&thin) as i64,
        });
        root.held.push(Gc::erase(Gc::erase_kind(thin_to_keep(fat))));
        p as *const u8 as usize
    });
    fn thin_to_keep<'gc, E: Elem>(g: GcSlice<'gc, E>) -> GcSlice<'gc, E> {
        g
    }
    let read = move |arena: &A, _k: usize| {
        arena.mutate(|_mc, root| {
            let e = *root.held.first()?;
            // reconstruct the slice from the erased pointer: the length lives in the GC block
            let thin: GcThinSlice<'_, E> = unsafe { Gc::from_thin_ptr_with_kind(Gc::as_ptr(e)) };
            let fat = Gc::as_fat(thin);
            let mut bytes = Vec::new();
            for x in fat.iter() {
                bytes.extend(x.bytes());
            }
            Some((Gc::as_ptr(fat) as *const u8 as usize, bytes))
        })
    };
    lifecycle(&mut arena, Obs { tag, addr, align_needed: ealign, data_len: len * E::SIZE, salt, extra }, &read)
}

// ------------------------------------------------------------------ a CLIENT pointer kind
// `gc_arena::meta` lets a client choose the per-value metadata kept in the block: here a slice kind whose
// length is a u32 (every kind that ships with the crate uses () or usize, whose size is a multiple of 8).
pub struct ShortSliceMeta;
impl<E, M> gc_arena::meta::PtrMeta<[E], M> for ShortSliceMeta {
    type PtrMetadata = u32;
    type Thin = ();
    fn to_thin(_type_meta: &M, fat: *const [E]) -> *const () {
        fat as *const ()
    }
    fn from_thin(_type_meta: &M, thin: *const (), len: u32) -> *const [E] {
        std::ptr::slice_from_raw_parts(thin as *const E, len as usize)
    }
}
impl<E, M> gc_arena::meta::AllocMeta<[E], M> for ShortSliceMeta {
    fn layout(_type_meta: &M, len: u32) -> Option<std::alloc::Layout> {
        std::alloc::Layout::array::<E>(len as usize).ok()
    }
}
type GcShort<'gc, E> = gc_arena::GcFat<'gc, [E], (), ShortSliceMeta>;
type GcThinShort<'gc, E> = gc_arena::GcThin<'gc, [E], (), ShortSliceMeta>;

fn cslice<E: Elem>(ealign: usize, len: usize) -> Value {
    ALLOC.reset();
    let mut arena = new_arena();
    let tag = 1;
    let salt = len + E::SIZE + 3;
    let mut extra = json!({});
    let addr = arena.mutate_root(|mc, root| {
        let v: Vec<E> = (0..len).map(|i| E::make(i, salt)).collect();
        ALLOC.arm(tag);
        // SAFETY: ShortSliceMeta is a correct PtrMeta + AllocMeta for [E]; every element is written before assume_init
        let g: GcShort<'_, Static<E>> = unsafe {
            let mut b = gc_arena::GcBuilder::<[Static<E>], (), ShortSliceMeta>::new_with_type_and_ptr_meta::<gc_arena::meta::UnitTypeMeta>(len as u32);
            ALLOC.disarm();
            let first = b.as_ptr() as *mut Static<E>;
            for (i, e) in v.into_iter().enumerate() {
                first.add(i).write(Static(e));
            }
            b.assume_init(mc)
        };
        let thin: GcThinShort<'_, Static<E>> = Gc::as_thin(g);
        let fat: GcShort<'_, Static<E>> = Gc::as_fat(thin);
        let p = Gc::as_ptr(g);
        let back: GcShort<'_, Static<E>> = unsafe { Gc::from_ptr_with_kind(p) };
        extra = json!({
            "thin_addr_same": Gc::as_ptr(thin) as *const u8 as usize == p as *const u8 as usize,
            "thin_len": thin.len() as i64, "fat_len": fat.len() as i64, "fat_ptr_eq": Gc::ptr_eq(g, fat),
            "ptr_rt": Gc::ptr_eq(g, back) && back.len() == len, "len": g.len() as i64,
            "thin_ptr_size": std::mem::size_of_val(&thin) as i64,
        });
        root.held.push(Gc::erase(Gc::erase_kind(fat)));
        p as *const u8 as usize
    });
    let read = move |arena: &A, _k: usize| {
        arena.mutate(|_mc, root| {
            let e = *root.held.first()?;
            // reconstruct the slice from the erased pointer: the length lives in the GC block
            let thin: GcThinShort<'_, Static<E>> = unsafe { Gc::from_thin_ptr_with_kind(Gc::as_ptr(e)) };
            let fat = Gc::as_fat(thin);
            let mut bytes = Vec::new();
            for x in fat.iter() {
                bytes.extend(x.0.bytes());
            }
            Some((Gc::as_ptr(fat) as *const u8 as usize, bytes))
        })
    };
    lifecycle(&mut arena, Obs { tag, addr, align_needed: ealign, data_len: len * E::SIZE, salt, extra }, &read)
}

fn probe_cslice(esize: usize, ealign: usize, len: usize) -> Option<Value> {
    Some(match (esize, ealign) {
        (0, 1) => cslice::<()>(1, len),
        (1, 1) => cslice::<u8>(1, len),
        (2, 2) => cslice::<u16>(2, len),
        (4, 4) => cslice::<u32>(4, len),
        (8, 8) => cslice::<u64>(8, len),
        (16, 16) => cslice::<u128>(16, len),
        (3, 1) => cslice::<[u8; 3]>(1, len),
        (12, 4) => cslice::<[u32; 3]>(4, len),
        (32, 32) => cslice::<E32>(32, len),
        _ => return None,
    })
}

fn probe_slice(esize: usize, ealign: usize, len: usize) -> Option<Value> {
    Some(match (esize, ealign) {
        (0, 1) => slice::<()>(1, len),
        (1, 1) => slice::<u8>(1, len),
        (2, 2) => slice::<u16>(2, len),
        (4, 4) => slice::<u32>(4, len),
        (8, 8) => slice::<u64>(8, len),
        (16, 16) => slice::<u128>(16, len),
        (3, 1) => slice::<[u8; 3]>(1, len),
        (12, 4) => slice::<[u32; 3]>(4, len),
        (32, 32) => slice::<E32>(32, len),
        _ => return None,
    })
}

fn probe_str(len: usize) -> Option<Value> {
    ALLOC.reset();
    let mut arena = new_arena();
    let tag = 1;
    let salt = len;
    let text: String = (0..len).map(|i| (b'a' + (pat(i, salt) % 26)) as char).collect();
    let mut extra = json!({});
    let t2 = text.clone();
    let addr = arena.mutate_root(|mc, root| {
        ALLOC.arm(tag);
        let g: GcStr<'_> = GcStr::new_str(mc, &t2);
        ALLOC.disarm();
        let thin: GcThinStr<'_> = Gc::as_thin(g);
        let fat: GcStr<'_> = Gc::as_fat(thin);
        let p = Gc::as_ptr(g);
        let back: GcStr<'_> = unsafe { Gc::from_ptr_with_kind(p) };
        extra = json!({
            "thin_addr_same": Gc::as_ptr(thin) as *const u8 as usize == p as *const u8 as usize,
            "thin_len": thin.len() as i64, "fat_len": fat.len() as i64, "fat_ptr_eq": Gc::ptr_eq(g, fat),
            "ptr_rt": Gc::ptr_eq(g, back) && back.len() == len, "len": g.len() as i64,
            "thin_ptr_size": std::mem::size_of_val(&thin) as i64,
        });
        root.held.push(Gc::erase(Gc::erase_kind(fat)));
        p as *const u8 as usize
    });
    let read = move |arena: &A, _k: usize| {
        arena.mutate(|_mc, root| {
            let e = *root.held.first()?;
            let thin: GcThinStr<'_> = unsafe { Gc::from_thin_ptr_with_kind(Gc::as_ptr(e)) };
            let fat = Gc::as_fat(thin);
            Some((Gc::as_ptr(fat) as *const u8 as usize, fat.as_bytes().to_vec()))
        })
    };
    // the expected bytes are the text itself: express them through `pat` by giving lifecycle the text
    let expect_bytes = text.as_bytes().to_vec();
    let mut v = lifecycle(&mut arena, Obs { tag, addr, align_needed: 1, data_len: 0, salt, extra }, &move |a, k| {
        read(a, k).map(|(p, b)| (p, if b == expect_bytes { vec![] } else { vec![1] }))
    });
    v["str"] = json!(true);
    Some(v)
}

// ------------------------------------------------------------------ slice with header
fn swh<H: Elem, E: Elem>(halign: usize, ealign: usize, len: usize) -> Value {
    ALLOC.reset();
    let mut arena = new_arena();
    let tag = 1;
    let salt = len + 3 * H::SIZE + E::SIZE;
    let mut extra = json!({});
    let addr = arena.mutate_root(|mc, root| {
        ALLOC.arm(tag);
        let b = GcSliceWithHeaderBuilder::<Static<H>, Static<E>>::new(len);
        ALLOC.disarm();
        let g = b
            .unwrap_static_header()
            .write_header(H::make(1000, salt))
            .unwrap_static_element()
            .write_slice_with(mc, |i| E::make(i, salt));
        let thin: GcThinSliceWithHeader<'_, H, E> = Gc::as_thin(g);
        let fat = Gc::as_fat(thin);
        let p = Gc::as_ptr(g);
        let hdr_addr = &g.header as *const H as usize;
        let slice_addr = g.slice.as_ptr() as usize;
        extra = json!({
            "thin_addr_same": Gc::as_ptr(thin) as *const u8 as usize == p as *const u8 as usize,
            "thin_len": thin.slice.len() as i64, "fat_len": fat.slice.len() as i64, "fat_ptr_eq": Gc::ptr_eq(g, fat),
            "ptr_rt": true, "len": g.slice.len() as i64,
            "thin_ptr_size": std::mem::size_of_val(&thin) as i64,
            "hdr_off": hdr_addr as i64 - p as *const u8 as usize as i64,
            "slice_off": slice_addr as i64 - p as *const u8 as usize as i64,
            "slice_aligned": slice_addr % ealign == 0,
        });
        root.held.push(Gc::erase(Gc::erase_kind(fat)));
        p as *const u8 as usize
    });
    let read = move |arena: &A, _k: usize| {
        arena.mutate(|_mc, root| {
            let e = *root.held.first()?;
            let thin: GcThinSliceWithHeader<'_, H, E> = unsafe { Gc::from_thin_ptr_with_kind(Gc::as_ptr(e) as *const H) };
            let fat = Gc::as_fat(thin);
            let mut bytes = fat.header.bytes();
            for x in fat.slice.iter() {
                bytes.extend(x.bytes());
            }
            Some((Gc::as_ptr(fat) as *const u8 as usize, bytes))
        })
    };
    // expected bytes: header pattern (index 1000) then the elements
    let mut expect: Vec<u8> = H::make(1000, salt).bytes();
    for i in 0..len {
        expect.extend(E::make(i, salt).bytes());
    }
    let mut v = lifecycle(&mut arena, Obs { tag, addr, align_needed: halign.max(ealign), data_len: 0, salt, extra }, &move |a, k| {
        read(a, k).map(|(p, b)| (p, if b == expect { vec![] } else { vec![1] }))
    });
    v["swh"] = json!(true);
    v
}

macro_rules! swh_dispatch {
    ($hs:expr, $ha:expr, $es:expr, $ea:expr, $len:expr; $( ($h:ty, $hsz:literal, $hal:literal) ),* ; $( ($e:ty, $esz:literal, $eal:literal) ),*) => {{
        let mut out: Option<Value> = None;
        swh_dispatch!(@outer out, $hs, $ha, $es, $ea, $len; [$( ($h, $hsz, $hal) ),*]; [$( ($e, $esz, $eal) ),*]);
        out
    }};
    (@outer $out:ident, $hs:expr, $ha:expr, $es:expr, $ea:expr, $len:expr; [$( ($h:ty, $hsz:literal, $hal:literal) ),*]; $elems:tt) => {
        $( if ($hs, $ha) == ($hsz, $hal) { swh_dispatch!(@inner $out, $h, $hal, $es, $ea, $len; $elems); } )*
    };
    (@inner $out:ident, $h:ty, $hal:literal, $es:expr, $ea:expr, $len:expr; [$( ($e:ty, $esz:literal, $eal:literal) ),*]) => {
        $( if ($es, $ea) == ($esz, $eal) { $out = Some(swh::<$h, $e>($hal, $eal, $len)); } )*
    };
}

fn probe_swh(hs: usize, ha: usize, es: usize, ea: usize, len: usize) -> Option<Value> {
    swh_dispatch!(hs, ha, es, ea, len;
        ((), 0, 1), (u8, 1, 1), (u32, 4, 4), (u64, 8, 8), (u128, 16, 16), ([u8; 3], 3, 1), (E32, 32, 32);
        ((), 0, 1), (u8, 1, 1), (u16, 2, 2), (u64, 8, 8), (u128, 16, 16), ([u8; 3], 3, 1), (E32, 32, 32))
}

pub fn probe(v: &Value) -> Value {
    let p = &v["point"];
    let g = |k: &str| p.get(k).and_then(|x| x.as_u64()).unwrap_or(0) as usize;
    let obs = match p["kind"].as_str().unwrap_or("") {
        "sized" => probe_sized(g("bytes"), g("align")),
        "slice" => probe_slice(g("esize"), g("ealign"), g("len")),
        "cslice" => probe_cslice(g("esize"), g("ealign"), g("len")),
        "str" => probe_str(g("len")),
        "swh" => probe_swh(g("hsize"), g("halign"), g("esize"), g("ealign"), g("len")),
        _ => None,
    };
    ALLOC.reset();
    match obs {
        Some(o) => json!({"ev": "layout", "point": p, "obs": o, "supported": true}),
        None => json!({"ev": "layout", "point": p, "supported": false}),
    }
}
