SPECIFICATION SpecEmit
CONSTANTS
  Obj = {o1, o2}
  NoObj = NoObj
  MaxKids = 2
  MaxWeak = 1
  Kinds = {"N"}
  Budgets = {1, 2}
  Grans = {"P1", "P2"}
  MaxOps = 0
  Emit = "classes"
  RootViaSet = {"mutate_root"}
  WithBarrierOnly = FALSE
  WithFinalize = TRUE
  WithDrop = TRUE
  WithMany = FALSE
SYMMETRY Perms
VIEW vw
CONSTRAINT Bounded
ACTION_CONSTRAINT EmitClasses
INVARIANTS Structural PropertyInvs
PROPERTIES C03_MutatorFrame C06_BookkeepingOnly C08_PhaseProtocol
CHECK_DEADLOCK FALSE
