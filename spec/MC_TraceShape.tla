---------------------------- MODULE MC_TraceShape ----------------------------
(* TLC enumerates TraceShape!Shapes, checks LawOK on each and prints it with its expectation. *)
EXTENDS TraceShape
VARIABLE sh
Init == sh \in Shapes
Next == UNCHANGED sh
Spec == Init /\ [][Next]_sh
Inv == LawOK(sh)
Emit == PrintT(<<"BEH", ToJson([shape |-> sh, expect |-> Expect(sh)])>>)
=============================================================================
