------------------------------ MODULE MC_Layout ------------------------------
(* TLC enumerates the grid of Layout.tla: every point is an initial state; the layout invariants
   are checked on each, and each is printed with its expectation for the harness. *)
EXTENDS Layout

VARIABLE pt
Init == pt \in Points
Next == UNCHANGED pt
Spec == Init /\ [][Next]_pt

Inv == LayoutOK(pt)
\* listed as an invariant: prints the grid with its expectation (spec -> implementation)
Emit == PrintT(<<"BEH", ToJson([point |-> pt, expect |-> Expect(pt)])>>)
=============================================================================
