---------------------------- MODULE GcArenaTrace ----------------------------
(***************************************************************************)
(* Implementation -> CONCRETE specification.  A recorded execution of the  *)
(* real crate (the seeded random driver: natural dyadic pacing, bursts,    *)
(* hundreds of objects) is replayed in GcHeap.tla event by event with the  *)
(* SAME operators TLC model-checks (Alloc, Store with the barrier of the   *)
(* logged path, RootBarrier at every root-editing entry point, Call with   *)
(* the real debt arithmetic, AdjustDebt), and every internal snapshot the  *)
(* harness logged (`snap`: phase, root_needs_trace, the all-objects list   *)
(* in order with colours and live flags, both gray queues, the sweep       *)
(* cursor and its predecessor, count, debt x 16) must EQUAL the model's    *)
(* state.  A difference is drift (the implementation-shaped specification  *)
(* and the code disagree), reported with the first differing line; it is   *)
(* never a property verdict -- the monitor gives those.                    *)
(***************************************************************************)
EXTENDS GcHeap, Json, IOUtils

Rec == ndJsonDeserialize(IOEnv.TRACE)

\* the identifiers of the run: every object ever allocated in the recorded trace
TraceIds == {Rec[k].o : k \in {j \in DOMAIN Rec : Rec[j].ev = "alloc"}} \cup {0}
Get(e, f, d) == IF f \in DOMAIN e THEN e[f] ELSE d

VARIABLES h, i, drift, nsnap
tvars == <<h, i, drift, nsnap>>

Fresh == [EmptyHeap EXCEPT !.pc = [sf |-> 8, ms |-> 256, mf |-> 2, tf |-> 6, kf |-> 1, df |-> 3, ff |-> 5]]

RootEntry == {"mutate_root", "map_root", "try_map_root"}

Apply(s, e) ==
  LET ev == e.ev IN
  CASE ev = "reset" -> Fresh
    [] ev = "set_pacing" /\ ~Get(e, "stepping", FALSE) ->
         [s EXCEPT !.pc = [sf |-> e.sf, ms |-> e.ms, mf |-> e.mf, tf |-> e.tf, kf |-> e.kf, df |-> e.df, ff |-> e.ff]]
    [] ev = "cb_begin" /\ e.kind \in RootEntry -> RootBarrier(s)          \* Arena::mutate_root / map_root: root_barrier()
    [] ev = "alloc" -> Alloc(s, e.o, e.k)
    [] ev = "store" /\ e.effective ->
         IF e.p = 0 THEN [s EXCEPT !.rootS = Append(@, e.c)] ELSE Store(s, e.p, e.c, e.path)
    [] ev = "remove" ->
         IF e.p = 0 THEN [s EXCEPT !.rootS = SeqRemove(@, e.c)] ELSE Remove(s, e.p, e.c, e.path)
    [] ev = "wstore" ->
         IF e.p = 0 THEN [s EXCEPT !.rootW = @ \cup {e.t}] ELSE WStore(s, e.p, e.t, e.path)
    [] ev = "wremove" ->
         IF e.p = 0 THEN [s EXCEPT !.rootW = @ \ {e.t}] ELSE WRemove(s, e.p, e.t, e.path)
    [] ev = "adjust_debt" -> AdjustDebt(s, e.xQ)
    [] ev = "call_end" /\ ~e.panicked ->
         (CASE e.kind = "start_sweeping" -> IF s.phase = "Sweep" THEN s ELSE Call(FinishMarking(s), "start_sweeping", 0, "real", FALSE)
            [] e.kind = "finalize" -> FinishMarking(s)
            [] OTHER -> Call(s, e.kind, 0, "real", FALSE))
    [] ev = "drop_begin" -> DropAll(s)
    [] OTHER -> s

\* the snapshot the model predicts, in the vocabulary of the harness's `snap` event
RECURSIVE Chain(_, _, _)
Chain(s, o, n) == IF o = NoObj \/ n = 0 THEN <<>> ELSE <<o>> \o Chain(s, s.next[o], n - 1)
Code(c) == CASE c = "W" -> 0 [] c = "WW" -> 1 [] c = "G" -> 2 [] c = "B" -> 3
PhaseCode(p) == CASE p = "Sleep" -> 0 [] p = "Mark" -> 1 [] p = "Sweep" -> 2 [] OTHER -> 3
Id(o) == IF o = NoObj THEN 0 ELSE o
Snap(s) ==
  LET q == Chain(s, s.head, Cardinality(Obj) + 1) IN
  [ phase |-> PhaseCode(s.phase), root_nt |-> s.rootNT, count |-> Count(s), debtQ |-> DebtQ(s),
    list |-> [k \in DOMAIN q |-> <<q[k], Code(s.color[q[k]]), s.live[q[k]]>>],
    gray |-> s.gray, gray_again |-> s.grayAgain, sweep |-> Id(s.sweep), sweep_prev |-> Id(s.sweepPrev) ]

Differs(s, e) ==
  LET m == Snap(s) IN
  {f \in {"phase", "root_nt", "count", "debtQ", "list", "gray", "gray_again", "sweep", "sweep_prev"} : m[f] # e[f]}

TInit == h = Fresh /\ i = 1 /\ drift = <<>> /\ nsnap = 0
TNext ==
  \/ /\ i <= Len(Rec)
     /\ LET e == Rec[i] IN
        IF e.ev = "snap"
        THEN /\ h' = h /\ nsnap' = nsnap + 1
             /\ drift' = IF drift = <<>> /\ Differs(h, e) # {} THEN <<i, Differs(h, e)>> ELSE drift
        ELSE /\ h' = (IF drift = <<>> THEN Apply(h, e) ELSE h)      \* after the first difference nothing more is learned
             /\ UNCHANGED <<drift, nsnap>>
     /\ i' = i + 1
  \/ /\ i = Len(Rec) + 1
     /\ PrintT(<<"VERDICT", ToJson([events |-> Len(Rec), snapshots |-> nsnap, objects |-> Cardinality(TraceIds) - 1, drift |-> drift])>>)
     /\ i' = i + 1 /\ UNCHANGED <<h, drift, nsnap>>
TSpec == TInit /\ [][TNext]_tvars
Accepted == TLCGet("stats").diameter = Len(Rec) + 2
=============================================================================
