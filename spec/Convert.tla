------------------------------- MODULE Convert -------------------------------
(***************************************************************************)
(* C19: pointer conversions.  A handle is (object, view); the conversions  *)
(* of the public API are edges between views, guarded by what the type     *)
(* system allows for the target (src/gc.rs erase / erase_kind / downgrade  *)
(* / as_ptr+from_ptr / as_thin / as_fat, src/gc_weak.rs upgrade / erase,   *)
(* src/unsize.rs unsize!, src/dynamic_roots.rs stash+fetch).  Every handle *)
(* derived from object o must denote o: ptr_eq / same address, the         *)
(* collector edge made by storing ANY derived strong handle is an edge to  *)
(* o (keeps the value alive; one destructor, of the original type), a weak *)
(* handle keeps nothing alive, dereference yields the original value.      *)
(* TLC enumerates every conversion chain up to MaxChain; the harness       *)
(* applies each to a real pointer; ConvertTrace validates the observations.*)
(* The ZST cache is a grid: Cached(T) <=> size(T) = 0 /\ align(T) <= MAX.  *)
(***************************************************************************)
EXTENDS Naturals, Integers, Sequences, FiniteSets, TLC, Json

Targets == {"sized", "slice", "str", "zst"}
Views   == {"typed", "unit", "weak", "weakunit", "dyn", "weakdyn", "thin", "weakthin"}
Convs   == {"erase", "erase_kind", "downgrade", "upgrade", "raw", "unsize", "as_thin", "as_fat", "stash_fetch"}
MaxChain == 4
None == "none"

Edge(t, v, c) ==
  CASE v = "typed" ->
         (CASE c = "erase" -> "unit" [] c = "erase_kind" -> "typed" [] c = "downgrade" -> "weak" [] c = "raw" -> "typed"
            [] c = "unsize" -> IF t \in {"sized", "zst"} THEN "dyn" ELSE None
            [] c = "as_thin" -> IF t \in {"slice", "str"} THEN "thin" ELSE None
            [] c = "stash_fetch" -> IF t = "sized" THEN "typed" ELSE None
            [] OTHER -> None)
    [] v = "unit" -> (CASE c = "erase" -> "unit" [] c = "downgrade" -> "weakunit" [] c = "raw" -> "unit" [] OTHER -> None)
    [] v = "weak" -> (CASE c = "upgrade" -> "typed" [] c = "erase" -> "weakunit"
                        [] c = "unsize" -> IF t \in {"sized", "zst"} THEN "weakdyn" ELSE None [] OTHER -> None)
    [] v = "weakunit" -> (CASE c = "upgrade" -> "unit" [] OTHER -> None)
    [] v = "dyn" -> (CASE c = "erase" -> "unit" [] c = "erase_kind" -> "dyn" [] c = "downgrade" -> "weakdyn" [] c = "raw" -> "dyn"
                       [] OTHER -> None)
    [] v = "weakdyn" -> (CASE c = "upgrade" -> "dyn" [] c = "erase" -> "weakunit" [] OTHER -> None)
    [] v = "thin" -> (CASE c = "as_fat" -> "typed" [] c = "erase" -> "unit" [] c = "downgrade" -> "weakthin" [] c = "raw" -> "thin"
                        [] OTHER -> None)
    [] v = "weakthin" -> (CASE c = "upgrade" -> "thin" [] c = "erase" -> "weakunit" [] OTHER -> None)

Strong(v) == v \in {"typed", "unit", "dyn", "thin"}
Derefs(v) == v \in {"typed", "dyn", "thin"}

RECURSIVE ViewAfter(_, _, _)
ViewAfter(t, v, chain) == IF chain = <<>> THEN v ELSE ViewAfter(t, Edge(t, v, Head(chain)), Tail(chain))

\* what must be observed for a chain applied to a pointer to object o of target t
ExpectChain(t, chain) ==
  LET v == ViewAfter(t, "typed", chain) IN
  [ view |-> v, same_object |-> TRUE, strong |-> Strong(v), derefs |-> Derefs(v),
    \* storing only the final handle: a strong one keeps the value alive, a weak one does not
    survives |-> Strong(v), destructed_once_as_original |-> TRUE ]

\* ---------------------------------------------------------------- ZST cache
ZstAligns == {1, 2, 4, 8, 16, 32, 64}
CacheMax  == {1, 8, 16}
Cached(size, align, max) == size = 0 /\ align <= max
ZstPoints == {[align |-> a, max |-> m, zst |-> z] : a \in ZstAligns, m \in CacheMax, z \in BOOLEAN}
ExpectZst(p) == [cached |-> Cached(IF p.zst THEN 0 ELSE p.align, p.align, p.max)]
=============================================================================
