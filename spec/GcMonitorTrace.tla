--------------------------- MODULE GcMonitorTrace ---------------------------
(***************************************************************************)
(* TLC trace validation: steps the monitor through a recorded ndjson trace *)
(* (environment variable TRACE) and prints the verdict.                    *)
(*   tlc -workers 1 -config GcMonitorTrace.cfg GcMonitorTrace.tla          *)
(***************************************************************************)
EXTENDS GcMonitor, Json, IOUtils

Rec == ndJsonDeserialize(IOEnv.TRACE)

VARIABLES m, i

TInit == m = Init0 /\ i = 1

Verdict == [events |-> Len(Rec), behaviours |-> m.behaviours, nviol |-> m.nviol,
            viol |-> m.viol, vcount |-> m.vcount, hits |-> m.hits]

TNext ==
  \/ /\ i <= Len(Rec)
     /\ m' = Step(m, Rec[i], i)
     /\ i' = i + 1
  \/ /\ i = Len(Rec) + 1
     /\ PrintT(<<"VERDICT", ToJson(Verdict)>>)
     /\ i' = i + 1
     /\ m' = m

TSpec == TInit /\ [][TNext]_<<m, i>>

\* POSTCONDITION: every line was consumed and the verdict was printed
Accepted ==
  \/ TLCGet("stats").diameter = Len(Rec) + 2
  \/ PrintT(<<"STUCK", TLCGet("stats").diameter, Len(Rec)>>) /\ FALSE
=============================================================================
