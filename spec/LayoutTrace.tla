----------------------------- MODULE LayoutTrace -----------------------------
(***************************************************************************)
(* C17, implementation -> specification: every record is what the harness  *)
(* observed when it allocated one grid point of Layout.tla through the     *)
(* public API.  The expectation is recomputed here from Layout!Expect.      *)
(***************************************************************************)
EXTENDS Layout, IOUtils

Rec == ndJsonDeserialize(IOEnv.TRACE)

VARIABLES i, viol, seen
tvars == <<i, viol, seen>>

\* JSON numbers come back as integers; the point record is rebuilt with exactly Layout's fields
PointOf(r) ==
  LET p == r.point IN
  CASE p.kind = "sized" -> [kind |-> "sized", bytes |-> p.bytes, align |-> p.align]
    [] p.kind = "slice" -> [kind |-> "slice", esize |-> p.esize, ealign |-> p.ealign, len |-> p.len]
    [] p.kind = "str"   -> [kind |-> "str", len |-> p.len]
    [] p.kind = "cslice" -> [kind |-> "cslice", esize |-> p.esize, ealign |-> p.ealign, len |-> p.len]
    [] p.kind = "swh"   -> [kind |-> "swh", hsize |-> p.hsize, halign |-> p.halign, esize |-> p.esize,
                            ealign |-> p.ealign, len |-> p.len]

\* the rules of C17 on one observation; returns the set of broken rule names
Broken(r) ==
  LET p == PointOf(r)  e == Expect(p)  o == r.obs  x == o.extra IN
  (IF ~r.supported \/ ~o.tracked THEN {"tool-unsupported"} ELSE {})
  \cup (IF r.supported /\ o.tracked THEN
    \* r1: the allocator is asked for exactly the block the layout computation yields
    (IF o.block_size = e.block_size /\ o.block_align = e.block_align THEN {} ELSE {"r1"})
    \* r2: the value lies at the computed offset and is aligned for the value
    \cup (IF o.value_off = e.value_off /\ o.ptr_aligned THEN {} ELSE {"r2"})
    \* r3: the value's bytes are intact and at the same address across collections in every phase
    \cup (IF o.bytes_ok /\ o.addr_stable THEN {} ELSE {"r3"})
    \* r4: nothing was written outside the block (bookkeeping stays inside, value bytes disjoint from it)
    \cup (IF o.guard_ok THEN {} ELSE {"r4"})
    \* r5: release hands the allocator back the identical layout, exactly once
    \cup (IF o.released_once /\ o.rel_size = o.block_size /\ o.rel_align = o.block_align /\ o.count_after = 0 THEN {} ELSE {"r5"})
    \* r6: fat <-> thin and Gc <-> raw pointer conversions preserve the address and the length metadata
    \cup (IF p.kind = "sized" THEN (IF x.ptr_rt THEN {} ELSE {"r6"})
          ELSE (IF x.thin_addr_same /\ x.thin_len = p.len /\ x.fat_len = p.len /\ x.len = p.len /\ x.fat_ptr_eq
                   /\ x.ptr_rt /\ x.thin_ptr_size = 8 THEN {} ELSE {"r6"}))
    \* r7: header and slice of a slice-with-header lie where the #[repr(C)] layout puts them
    \cup (IF p.kind = "swh" THEN (IF x.hdr_off = 0 /\ x.slice_off = e.slice_off /\ x.slice_aligned THEN {} ELSE {"r7"}) ELSE {})
  ELSE {})

TInit == i = 1 /\ viol = {} /\ seen = {}
TNext ==
  \/ /\ i <= Len(Rec)
     /\ LET b == Broken(Rec[i]) IN
        viol' = viol \cup {<<"C17", rule, i>> : rule \in b}
     /\ seen' = seen \cup {PointOf(Rec[i])}
     /\ i' = i + 1
  \/ /\ i = Len(Rec) + 1
     \* every point of the specification's grid must have been observed
     /\ PrintT(<<"VERDICT", ToJson([events |-> Len(Rec), viol |-> viol, missing |-> Cardinality(Points \ seen),
                                   points |-> Cardinality(Points), sample_missing |-> IF Points \ seen = {} THEN <<>> ELSE <<CHOOSE q \in Points \ seen : TRUE>>])>>)
     /\ i' = i + 1 /\ UNCHANGED <<viol, seen>>
TSpec == TInit /\ [][TNext]_tvars
Accepted == TLCGet("stats").diameter = Len(Rec) + 2
=============================================================================
