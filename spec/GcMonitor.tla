------------------------------ MODULE GcMonitor ------------------------------
(***************************************************************************)
(* The listed properties as a specification of OBSERVABLE behaviour.       *)
(*                                                                         *)
(* The monitor's state is a shadow of what a client of gc-arena can know   *)
(* without looking inside the collector: the object graph as edited by the *)
(* logged mutator events, which values were destructed, which blocks were  *)
(* released, the last observed phase, count and debt.  It knows nothing    *)
(* about colours, queues or the sweep cursor, so an implementation that    *)
(* keeps the properties but works differently inside is accepted.          *)
(*                                                                         *)
(* Step(m, e, i) consumes trace line e (number i).  Each property is a set *)
(* of rules; a broken rule adds <<property, rule, line, object>> to        *)
(* m.viol.  m.hits counts how often each rule's antecedent was true        *)
(* (vacuity control).                                                      *)
(***************************************************************************)
EXTENDS Naturals, Integers, Sequences, FiniteSets, TLC

Range(f) == {f[x] : x \in DOMAIN f}

RECURSIVE RemoveOne(_, _)
RemoveOne(q, x) == IF q = <<>> THEN <<>>
                   ELSE IF Head(q) = x THEN Tail(q) ELSE <<Head(q)>> \o RemoveOne(Tail(q), x)

Has(e, f) == f \in DOMAIN e
Get(e, f, d) == IF f \in DOMAIN e THEN e[f] ELSE d

-----------------------------------------------------------------------------
(***************************************************************************)
(* C08: the phase protocol per entry point, over the observable phase.     *)
(* (The same operator is an action property of the concrete model.)        *)
(***************************************************************************)
PhaseOK(kind, before, after) ==
  CASE kind \in {"mark_debt", "finish_marking", "finalize"} ->
         IF before = "Sweeping" THEN after = "Sweeping"
         ELSE IF kind = "mark_debt" THEN (IF before = "Marked" THEN after = "Marked"
                                          ELSE after \in {before, "Marking", "Marked"})
         ELSE IF kind = "finish_marking" THEN after = "Marked"
         ELSE after \in {"Marked", "Marking"}          \* finalize: may resurrect
    [] kind = "start_sweeping" -> after = "Sweeping"
    [] kind = "finish_cycle" -> after = "Sleeping"
    [] kind = "cycle_debt" ->
         (CASE before \in {"Sleeping", "Marking"} -> TRUE
            [] before = "Marked"   -> after \in {"Marked", "Sweeping", "Sleeping"}
            [] before = "Sweeping" -> after \in {"Sweeping", "Sleeping"}
            [] OTHER -> FALSE)
    [] kind = "collect_debt" -> TRUE
    [] OTHER -> TRUE

\* does the call hand out a MarkedArena?  (mark_debt: exactly when it ends Marked;
\* finish_marking: exactly when the arena was not Sweeping)
MarkedOK(kind, before, after, marked) ==
  CASE kind = "mark_debt" -> marked = (after = "Marked")
    [] kind \in {"finish_marking", "finalize", "start_sweeping"} -> marked = (before # "Sweeping")
    [] OTHER -> ~marked

-----------------------------------------------------------------------------
NewArena ==
  [ live |-> TRUE,            \* the arena exists
    rootS |-> <<>>, rootW |-> <<>>,
    objs |-> {},              \* every object ever allocated in this arena
    phase |-> "Sleeping",
    reach |-> {}, reachValid |-> FALSE,
    mutSinceWake |-> TRUE,    \* unknown => assume mutation
    resurrected |-> {},       \* resurrected in the running cycle
    dead |-> {},              \* objects reported dead in the running finalize callback
    revived |-> FALSE,        \* a dead object was resurrected in the running finalize callback
    adopted |-> {},           \* targets of strong stores made while a cycle was running (C06)
    wadopted |-> {},          \* targets of weak stores made while a cycle was running (C06)
    dropping |-> FALSE,
    last |-> <<>>,            \* <<phase, count, debt>> at the end of the last operation on this arena
    \* pacing (C09/C10).  pk: "default" (the crate's non-dyadic default), "exact" (dyadic factors in
    \* 16ths, logged), "stepping" (the harness drives increments; only mf is known)
    pk |-> "default", pc |-> [sf |-> 0, ms |-> 0, mf |-> 0, tf |-> 0, kf |-> 0, df |-> 0, ff |-> 0],
    \* the running cycle, if the monitor saw it wake: allocations alive at wake, allocations since,
    \* debt positive at the waking call, artificial debt reduction since
    cyc |-> [valid |-> FALSE, H |-> 0, A |-> 0, wokeDebt |-> FALSE, negAdj |-> FALSE],
    \* the sleep promise after an atomic cycle: threshold (x16) and allocations since
    slp |-> [valid |-> FALSE, T |-> 0, A |-> 0],
    swAllocs |-> 0,           \* allocations made while this cycle was Sweeping (not swept, hence not "survivors")
    swValid |-> TRUE ]        \* ... unless a collect_debt call may have crossed a whole cycle since they were counted

Init0 ==
  [ ar |-> <<>>,              \* arena number -> arena shadow
    owner |-> <<>>, kind |-> <<>>, dtor |-> <<>>,
    strong |-> <<>>, weak |-> <<>>,
    destructed |-> {}, released |-> {}, everDropped |-> {},
    dpanic |-> {},            \* values whose (injected) destructor panicked: destructed, their block may stay lost
    dpanicNow |-> FALSE,      \* ... during the operation that is running
    hs |-> <<>>,              \* DynamicRoot handle number -> [set, obj] (handles live outside the arenas)
    cb |-> "", cbArena |-> 0, cbMutated |-> FALSE,
    call |-> "", callArena |-> 0, callBefore |-> "", callReach |-> {}, callRes |-> {},
    callCountBefore |-> 0, callDebtPos |-> FALSE,
    callDebtQ |-> 0,          \* the debt (x16) when the running call began
    callCredQ |-> 0,          \* credit (x16) the running call has certainly earned: observed destructs x drop_factor + releases x free_factor
    cbDebt |-> 0, cbFwd |-> 0,
    viol |-> {}, nviol |-> 0, vcount |-> [r \in {} |-> 0],
    hits |-> [r \in {} |-> 0],
    beh |-> -1, line |-> 0, behaviours |-> 0 ]

\* ------------------------------------------------------------------ helpers
Hit(m, r) == [m EXCEPT !.hits = IF r \in DOMAIN @ THEN [@ EXCEPT ![r] = @ + 1] ELSE @ @@ (r :> 1)]

\* at most 6 recorded violations per rule (all are counted)
Flag(m, prop, rule, i, o) ==
  LET k == prop \o "." \o rule
      n == IF k \in DOMAIN m.vcount THEN m.vcount[k] ELSE 0
      m1 == [m EXCEPT !.nviol = @ + 1,
                      !.vcount = IF k \in DOMAIN @ THEN [@ EXCEPT ![k] = @ + 1] ELSE @ @@ (k :> 1)]
  IN IF n >= 6 THEN m1 ELSE [m1 EXCEPT !.viol = @ \cup {<<prop, rule, i, o, m.beh>>}]

\* Check(m, antecedent, rule-holds, ...): count the antecedent, flag when the rule is broken
Check(m, ante, ok, prop, rule, i, o) ==
  IF ~ante THEN m
  ELSE LET m1 == Hit(m, prop \o "." \o rule) IN IF ok THEN m1 ELSE Flag(m1, prop, rule, i, o)

\* strong children: what the mutator stored, plus -- for a DynamicRootSet -- what live handles keep stashed
Kids(m, o) == (IF o \in DOMAIN m.strong THEN Range(m.strong[o]) ELSE {})
              \cup {m.hs[k].obj : k \in {x \in DOMAIN m.hs : m.hs[x].set = o}}
WKids(m, o) == IF o \in DOMAIN m.weak THEN Range(m.weak[o]) ELSE {}

RECURSIVE Close(_, _)
Close(m, S) == LET S2 == S \cup UNION {Kids(m, o) : o \in S} IN IF S2 = S THEN S ELSE Close(m, S2)

ReachOf(m, a) == Close(m, Range(m.ar[a].rootS))
\* cached reachability of arena a; returns <<set, m'>>
WithReach(m, a) ==
  IF m.ar[a].reachValid THEN <<m.ar[a].reach, m>>
  ELSE LET R == ReachOf(m, a) IN <<R, [m EXCEPT !.ar[a].reach = R, !.ar[a].reachValid = TRUE]>>
Dirty(m, a) == [m EXCEPT !.ar[a].reachValid = FALSE]
Mutated(m, a) == [Dirty(m, a) EXCEPT !.ar[a].mutSinceWake = TRUE, !.cbMutated = TRUE]

WeakTargetsOfReachable(m, a, R) == Range(m.ar[a].rootW) \cup UNION {WKids(m, o) : o \in R}
Blocks(m, a) == m.ar[a].objs \ m.released

ArenaOf(e) == Get(e, "a", 0)
Known(m, o) == o \in DOMAIN m.owner

-----------------------------------------------------------------------------
(***************************************************************************)
(* Event transitions.                                                      *)
(***************************************************************************)
OnReset(m, e, i) ==
  \* a new behaviour: forget the shadow, keep the verdict
  [Init0 EXCEPT !.hs = <<>>, !.viol = m.viol, !.nviol = m.nviol, !.vcount = m.vcount, !.hits = m.hits,
                !.beh = Get(e, "beh", -1), !.behaviours = m.behaviours + 1]

OnArenaNew(m, e, i) ==
  LET a == ArenaOf(e) IN
  [m EXCEPT !.ar = [x \in DOMAIN m.ar \cup {a} |-> IF x = a THEN NewArena ELSE m.ar[x]]]

OnAlloc(m, e, i) ==
  LET a == ArenaOf(e)  o == e.o
      m1 == [m EXCEPT !.owner = @ @@ (o :> a), !.kind = @ @@ (o :> e.k), !.dtor = @ @@ (o :> e.dtor),
                      !.strong = @ @@ (o :> <<>>), !.weak = @ @@ (o :> <<>>),
                      !.ar[a].objs = @ \cup {o}]
      m2 == [Mutated(m1, a) EXCEPT !.ar[a].reachValid = m.ar[a].reachValid,   \* a fresh object is not reachable yet
                                   !.ar[a].cyc.A = @ + 1, !.ar[a].slp.A = @ + 1,
                                   !.ar[a].swAllocs = IF m.ar[a].phase = "Sweeping" THEN @ + 1 ELSE @]
  IN \* C17 (core part): the value is aligned and lies inside the block, after the bookkeeping
     Check(m2, e.tracked, e.off >= 16 /\ e.off % e.align = 0, "C17", "r1", i, o)

MidCycle(m, a) == m.ar[a].phase # "Sleeping"

FwdPaths == {"fwd_some", "fwd_none", "fwd_weak_some", "fwd_weak_none"}
CountFwd(m, e) == IF Get(e, "path", "") \in FwdPaths THEN [m EXCEPT !.cbFwd = @ + 1] ELSE m

OnStore(m, e, i) ==
  LET a == ArenaOf(e)
      mf == CountFwd(m, e)
      m0 == IF MidCycle(m, a) THEN [mf EXCEPT !.ar[a].adopted = @ \cup {e.c}] ELSE mf IN
  IF ~e.effective THEN m
  ELSE IF e.p = 0 THEN [Mutated(m0, a) EXCEPT !.ar[a].rootS = Append(@, e.c)]
  ELSE LET single == m.kind[e.p] \in {"L", "O"} IN
       [Mutated(m0, a) EXCEPT !.strong[e.p] = IF single THEN <<e.c>> ELSE Append(@, e.c)]

OnRemove(m, e, i) ==
  LET a == ArenaOf(e) IN
  IF e.p = 0 THEN [Mutated(m, a) EXCEPT !.ar[a].rootS = RemoveOne(@, e.c)]
  ELSE [Mutated(m, a) EXCEPT !.strong[e.p] = RemoveOne(@, e.c)]

OnWStore(m, e, i) ==
  LET a == ArenaOf(e)
      mf == CountFwd(m, e)
      m0 == IF MidCycle(m, a) THEN [mf EXCEPT !.ar[a].wadopted = @ \cup {e.t}] ELSE mf IN
  IF e.p = 0 THEN [Mutated(m0, a) EXCEPT !.ar[a].rootW = Append(@, e.t)]
  ELSE LET single == m.kind[e.p] = "L" IN
       [Mutated(m0, a) EXCEPT !.weak[e.p] = IF single THEN <<e.t>> ELSE Append(@, e.t)]

OnWRemove(m, e, i) ==
  LET a == ArenaOf(e) IN
  IF e.p = 0 THEN [Mutated(m, a) EXCEPT !.ar[a].rootW = RemoveOne(@, e.t)]
  ELSE [Mutated(m, a) EXCEPT !.weak[e.p] = RemoveOne(@, e.t)]

OnBarrier(m, e, i) == [CountFwd(m, e) EXCEPT !.ar[ArenaOf(e)].mutSinceWake = TRUE, !.cbMutated = TRUE]

MaxI(x, y) == IF x >= y THEN x ELSE y
OnSetPacing(m, e, i) ==
  LET a == ArenaOf(e) IN
  IF Get(e, "stepping", FALSE)
  THEN [m EXCEPT !.ar[a].pk = "stepping", !.ar[a].pc.mf = e.mf, !.ar[a].cyc.valid = FALSE, !.ar[a].slp.valid = FALSE,
                 !.ar[a].last = <<>>]
  ELSE [m EXCEPT !.ar[a].pk = "exact", !.ar[a].last = <<>>,
                 !.ar[a].pc = [sf |-> e.sf, ms |-> e.ms, mf |-> e.mf, tf |-> e.tf, kf |-> e.kf, df |-> e.df, ff |-> e.ff],
                 !.ar[a].cyc.valid = FALSE, !.ar[a].slp.valid = FALSE]

OnAdjustDebt(m, e, i) ==
  LET a == ArenaOf(e)
      \* C10 r4: while positive, the debt grows by exactly x (exact for dyadic pacings)
      m1 == Check(m, m.ar[a].pk \in {"exact", "stepping"} /\ e.before > 0 /\ e.after > 0 /\ e.count > 0,
                  e.after - e.before = e.xQ, "C10", "r4", i, e.xQ)
  IN [m1 EXCEPT !.ar[a].cyc.negAdj = @ \/ e.xQ < 0, !.ar[a].slp.valid = FALSE,
                !.ar[a].last = IF @ = <<>> THEN @ ELSE <<@[1], @[2], e.after>>]

\* ---------------------------------------------------------------- C14: DynamicRootSet
OnStash(m, e, i) ==
  LET a == ArenaOf(e)
      m0 == IF MidCycle(m, a) THEN [m EXCEPT !.ar[a].adopted = @ \cup {e.o}] ELSE m
  IN [Mutated(m0, a) EXCEPT !.hs = [k \in DOMAIN m.hs \cup {e.h} |-> IF k = e.h THEN [set |-> e.set, obj |-> e.o] ELSE m.hs[k]]]

OnCloneHandle(m, e, i) ==
  \* C14 r4: handle operations never fail, whatever happened to the set or the arena
  LET m1 == Check(m, TRUE, ~e.panicked, "C14", "r4", i, e.h) IN
  IF e.panicked \/ e.h \notin DOMAIN m.hs THEN m1
  ELSE [m1 EXCEPT !.hs = [k \in DOMAIN m.hs \cup {e.h2} |-> IF k = e.h2 THEN m.hs[e.h] ELSE m.hs[k]]]

OnDropHandle(m, e, i) ==
  LET a == ArenaOf(e)
      m1 == Check(m, TRUE, ~e.panicked, "C14", "r4", i, e.h)
      m2 == [m1 EXCEPT !.hs = [k \in DOMAIN m.hs \ {e.h} |-> m.hs[k]]]
  IN IF a \in DOMAIN m.ar THEN Mutated(m2, a) ELSE m2

\* a handle presented to a set that the root holds: contains / try_fetch / fetch
OnFetch(m, e, i) ==
  LET issued == e.h \in DOMAIN m.hs /\ m.hs[e.h].set = e.set
      \* C14 r1: a handle is accepted only by the set that issued it (contains, try_fetch and the
      \* panicking fetch agree)
      m1 == Check(m, TRUE, e.contains = issued /\ e.ok = issued /\ e.fetch_panics = ~issued, "C14", "r1", i, e.h)
      \* C14 r2: fetch returns a pointer to the very object that was stashed
      m2 == Check(m1, issued /\ e.ok, e.o = m.hs[e.h].obj, "C14", "r2", i, e.h)
      \* C20 r3: a handle issued by a set of ANOTHER arena (which it may have outlived) is never accepted
      foreign == e.h \in DOMAIN m.hs /\ m.hs[e.h].set \in DOMAIN m.owner /\ m.owner[m.hs[e.h].set] # ArenaOf(e)
      m3 == Check(m2, foreign, ~e.contains /\ ~e.ok, "C20", "r3", i, e.h)
  IN m3

\* observations common to cb_begin / cb_end / call_begin / call_end / drop_begin
ObserveState(m, e, i, outsideCb) ==
  LET a == ArenaOf(e)
      m1 == [m EXCEPT !.ar[a].phase = e.phase]
      \* C10 r1: outside callbacks the count is the number of blocks not yet released
      m2 == Check(m1, outsideCb, e.count = Cardinality(Blocks(m1, a)), "C10", "r1", i, e.count)
      \* C10 r2: the debt is finite and non-negative
      m3 == Check(m2, TRUE, e.debt_finite /\ e.debt_nonneg, "C10", "r2", i, e.debtQ)
      \* C10 r3: an arena holding no allocation has no debt
      m4 == Check(m3, e.count = 0, e.debtQ = 0, "C10", "r3", i, e.debtQ)
      \* C09 r5: after an atomic cycle the collector reports zero debt until the allocations since
      \* exceed max(min_sleep, sleep_factor x survivors), and positive debt once they do
      sl == m.ar[a].slp
      m4i == IF sl.valid /\ Get(sl, "inc", FALSE) /\ e.phase = "Sleeping" /\ e.ev # "call_end" THEN Hit(m4, "C09.r5i") ELSE m4
      m5 == Check(m4i, sl.valid /\ e.phase = "Sleeping" /\ e.count > 0 /\ e.ev # "call_end",
                  e.debt_pos = (16 * sl.A > sl.T), "C09", "r5", i, sl.A)
      \* C20 r2: nothing that happened since the last operation on THIS arena (operations on other
      \* arenas, handle clones and drops) changed its phase, count or debt
      now == <<e.phase, e.count, e.debtQ>>
      starts == e.ev \in {"cb_begin", "call_begin"}
      m6 == Check(m5, starts /\ m.ar[a].last # <<>>, now = m.ar[a].last, "C20", "r2", i, a)
  IN [m6 EXCEPT !.ar[a].last = IF starts THEN @ ELSE now]

OnCbBegin(m, e, i) ==
  LET a == ArenaOf(e)
      m1 == IF Has(e, "phase") THEN ObserveState(m, e, i, TRUE) ELSE m
  IN [m1 EXCEPT !.cb = e.kind, !.cbArena = a, !.cbMutated = FALSE,
                !.cbDebt = Get(e, "debtQ", 0), !.cbFwd = 0,
                !.ar[a].dead = {}, !.ar[a].revived = FALSE]

\* The callback body is over and the callback is unwinding (panic, or Err from a fallible entry
\* point).  Entry points that consume the arena (new, try_new, map_root, try_map_root) drop it
\* while the unwind leaves them: C11 "a failed constructor releases everything".
OnCbUnwind(m, e, i) ==
  LET a == ArenaOf(e) IN
  [Hit(m, "C11.r1") EXCEPT !.cb = "", !.ar[a].dropping = e.consumes]

OnCbEnd(m, e, i) ==
  LET a == ArenaOf(e)
      consumed == Get(e, "consumed", FALSE)
      before == m.ar[a].phase
      m1 == IF Has(e, "phase") /\ ~consumed THEN ObserveState(m, e, i, TRUE) ELSE m
      after == m1.ar[a].phase
      \* C08: a callback never changes the phase, except Marked -> Marking
      m2 == Check(m1, Has(e, "phase") /\ ~e.panicked /\ ~consumed,
                  after = before \/ (before = "Marked" /\ after = "Marking"), "C08", "r3", i, 0)
      \* C06 r1: none of the barrier paths panics
      m3 == Check(m2, m.cbMutated \/ e.panicked, ~e.panicked \/ e.msg = "injected", "C06", "r1", i, 0)
      \* C10 r5: allocation, mutation and write barriers never decrease the debt.  Known finding F2:
      \* a forward barrier that marks its child is credited mark_factor (rule r5f, reported apart).
      exact == m.ar[a].pk \in {"exact", "stepping"}
      drop == m.cbDebt - Get(e, "debtQ", 0) - (IF exact THEN 0 ELSE 1)
      canDebt == Has(e, "phase") /\ ~consumed /\ ~e.panicked /\ m.cb \notin {"finalize", ""}
      \* mark_factor in 16ths (the crate's default pacing has 0.1, i.e. 1.6/16, rounded up)
      mfQ == IF m.ar[a].pk = "default" THEN 2 ELSE m.ar[a].pc.mf
      byFwd == m.cbFwd > 0 /\ drop <= mfQ * m.cbFwd
      m4 == Check(m3, canDebt, drop <= 0 \/ byFwd, "C10", "r5", i, drop)
      m5 == Check(m4, canDebt /\ m.cbFwd > 0, ~(drop > 0 /\ byFwd), "C10", "r5f", i, drop)
      \* C10 r6: no metric update overflows, underflows or panics
      m6 == Check(m5, TRUE, ~Get(e, "arith", FALSE), "C10", "r6", i, 0)
  IN [m6 EXCEPT !.cb = ""]

OnCallBegin(m, e, i) ==
  LET a == ArenaOf(e)
      m1 == ObserveState(m, e, i, TRUE)
      rm == WithReach(m1, a)
      m2 == rm[2]
      \* marking that begins in this call begins with no mutation in between
      m3 == IF e.phase = "Sleeping" THEN [m2 EXCEPT !.ar[a].mutSinceWake = FALSE] ELSE m2
  IN [m3 EXCEPT !.call = e.kind, !.callArena = a, !.callBefore = e.phase, !.callReach = rm[1],
                !.callDebtPos = e.debt_pos, !.callDebtQ = e.debtQ, !.callCredQ = 0,
                !.callRes = Close(m2, m2.ar[a].resurrected), !.callCountBefore = e.count]

OnCallEnd(m, e, i) ==
  LET a == ArenaOf(e)
      before == m.callBefore
      m1 == ObserveState(m, e, i, TRUE)
      after == e.phase
      ok == ~e.panicked
      m2 == Check(m1, ok, PhaseOK(e.kind, before, after), "C08", "r1", i, 0)
      m3 == Check(m2, ok, MarkedOK(e.kind, before, after, e.marked), "C08", "r2", i, 0)
      \* C07 r5: reviving a dead object makes the arena report Marking until marking is finished again
      m4 == Check(m3, ok /\ e.kind = "finalize" /\ m.ar[a].revived, after = "Marking", "C07", "r5", i, 0)
      \* the cycle may have ended in this call: resurrection promises end with the cycle
      ended == after = "Sleeping" \/ (before = "Sweeping" /\ after # "Sweeping") \/ e.kind = "collect_debt"
      began == before \in {"Sweeping"} /\ after \in {"Marking", "Marked"}
      pay == e.kind \in {"collect_debt", "cycle_debt", "mark_debt"}
      pc == m.ar[a].pc
      pk == m.ar[a].pk
      \* C09 r1: collect_debt returns with zero allocation debt
      m4a == Check(m4, ok /\ e.kind = "collect_debt", ~e.debt_pos, "C09", "r1", i, e.debtQ)
      \* C09 r2: cycle_debt / mark_debt return with zero debt or at their documented stopping phase
      m4b == Check(m4a, ok /\ e.kind = "cycle_debt", ~e.debt_pos \/ after = "Sleeping", "C09", "r2", i, e.debtQ)
      m4c == Check(m4b, ok /\ e.kind = "mark_debt", ~e.debt_pos \/ after = "Marked" \/ before = "Sweeping", "C09", "r2m", i, e.debtQ)
      \* C09 r3: all work factors zero: called with positive debt, collect_debt / cycle_debt do not
      \* return until the collector is Sleeping again
      stw == pk = "exact" /\ pc.mf = 0 /\ pc.tf = 0 /\ pc.kf = 0 /\ pc.df = 0 /\ pc.ff = 0
      m4d == Check(m4c, ok /\ stw /\ e.kind \in {"collect_debt", "cycle_debt"} /\ m.callDebtPos,
                   after = "Sleeping", "C09", "r3", i, 0)
      \* C09 r4: a cycle that woke (with positive debt) with H live allocations is still unfinished
      \* after a cycle_debt call only if fewer than rho*H/(1-rho) allocations were made since
      cy == m.ar[a].cyc
      R == MaxI(pc.mf + pc.tf + pc.kf, MaxI(pc.df + pc.ff, pc.mf + pc.df + pc.kf))
      m4e == Check(m4d, ok /\ e.kind = "cycle_debt" /\ pk = "exact" /\ R < 16 /\ after # "Sleeping"
                        /\ before # "Sleeping" /\ cy.valid /\ cy.wokeDebt /\ ~cy.negAdj,
                   cy.A * (16 - R) < R * cy.H, "C09", "r4", i, cy.A)
      m4f == Check(m4e, ok /\ e.kind = "cycle_debt" /\ pk = "exact" /\ R < 16 /\ after # "Sleeping"
                        /\ before = "Sleeping" /\ m.callDebtPos,
                   0 < R * m.callCountBefore, "C09", "r4", i, 0)
      \* C09 r5 (second half): asleep with zero debt, a debt-driven call makes no progress
      m4g == Check(m4f, ok /\ pay /\ before = "Sleeping" /\ ~m.callDebtPos,
                   after = "Sleeping" /\ e.count = m.callCountBefore, "C09", "r5b", i, 0)
      m4h == Check(m4g, TRUE, ~Get(e, "arith", FALSE), "C10", "r6", i, 0)
      \* bookkeeping of the running cycle and of the sleep promise
      woke == before = "Sleeping" /\ after # "Sleeping"
      ranAtomic == ok /\ before = "Sleeping" /\ after = "Sleeping" /\ (e.kind = "finish_cycle" \/ (pay /\ m.callDebtPos))
      crossed == e.kind = "collect_debt" /\ before # "Sleeping"
      cyc2 == IF woke /\ ok THEN [valid |-> TRUE, H |-> m.callCountBefore, A |-> 0, wokeDebt |-> m.callDebtPos, negAdj |-> FALSE]
              ELSE IF after = "Sleeping" \/ crossed \/ ~ok THEN [cy EXCEPT !.valid = FALSE] ELSE cy
      \* ... and so does an INCREMENTAL cycle that certainly carried no debt over: the call that finished it began
      \* with a debt that the destructs and releases observed during it alone pay for.  Survivors are what the sweep
      \* kept: everything counted now except what was allocated while Sweeping.
      incFinish == ok /\ pk = "exact" /\ before # "Sleeping" /\ after = "Sleeping" /\ e.kind \in {"cycle_debt", "finish_cycle"}
                   /\ m.callDebtQ <= m.callCredQ /\ m.ar[a].swValid /\ m.ar[a].swAllocs <= e.count
      slp2 == IF ranAtomic /\ pk = "exact"
              THEN [valid |-> TRUE, T |-> MaxI(e.count * pc.sf, 16 * pc.ms), A |-> 0]
              ELSE IF incFinish
              THEN [valid |-> TRUE, T |-> MaxI((e.count - m.ar[a].swAllocs) * pc.sf, 16 * pc.ms), A |-> 0, inc |-> TRUE]
              ELSE IF after # "Sleeping" \/ ~ok \/ (e.kind = "collect_debt" /\ m.callDebtPos) \/ (e.kind = "cycle_debt" /\ m.callDebtPos)
                   THEN [m.ar[a].slp EXCEPT !.valid = FALSE] ELSE m.ar[a].slp
      m5 == [m4h EXCEPT !.call = "", !.ar[a].cyc = cyc2, !.ar[a].slp = slp2,
                       !.ar[a].resurrected = IF ended THEN {} ELSE @,
                       !.ar[a].adopted = IF after = "Sleeping" THEN {} ELSE @,
                       !.ar[a].wadopted = IF after = "Sleeping" THEN {} ELSE @,
                       !.ar[a].swAllocs = IF after = "Sweeping" THEN @ ELSE 0,
                       \* collect_debt may run Sweeping -> Sleeping -> Marking -> Sweeping in one call: the sweep it ends in
                       \* need not be the one whose allocations were counted
                       !.ar[a].swValid = IF after # "Sweeping" THEN TRUE
                                         ELSE IF e.kind = "collect_debt" /\ before = "Sweeping" /\ m.ar[a].swAllocs > 0 THEN FALSE ELSE @,
                       !.ar[a].mutSinceWake = IF began THEN FALSE ELSE @]
  IN m5

\* is this destruct/release part of dropping the object's arena?
InDrop(m, o) == Known(m, o) /\ m.ar[m.owner[o]].dropping

\* reachability to judge a reclamation event by: the graph cannot change during a call
ReachNow(m, a) == IF m.call # "" /\ m.callArena = a THEN m.callReach ELSE ReachOf(m, a)

OnDestruct(m, e, i) ==
  LET o == e.o IN
  IF ~Known(m, o) THEN Flag(m, "TOOL", "unknown-object", i, o)
  ELSE
  LET a == m.owner[o]
      \* C04 r1: never a second time
      m1 == Check(m, TRUE, o \notin m.destructed, "C04", "r1", i, o)
      \* C03 r1: not while a callback runs
      m2 == Check(m1, TRUE, m.cb = "", "C03", "r1", i, o)
      \* C01 r1: not while strongly reachable (dropping the arena excepted)
      m3a == Check(m2, ~InDrop(m, o), o \notin ReachNow(m, a), "C01", "r1", i, o)
      \* C06 r2: ... in particular not a value adopted through a barrier path while a cycle ran
      m3 == Check(m3a, ~InDrop(m, o) /\ o \in ReachNow(m, a) /\ o \in Close(m, m.ar[a].adopted), FALSE, "C06", "r2", i, o)
      \* C07 r4: nothing strongly reachable from an object resurrected in this cycle
      cyc == m.call \in {"cycle_debt", "finish_cycle", "mark_debt", "finish_marking", "finalize", "start_sweeping"}
      m4 == Check(m3, ~InDrop(m, o) /\ cyc /\ m.ar[a].resurrected # {}, o \notin m.callRes, "C07", "r4", i, o)
      \* C20 r1: only operations on the owning arena reclaim
      m5 == Check(m4, m.call # "" \/ m.cb # "",
                  a = (IF m.call # "" THEN m.callArena ELSE m.cbArena), "C20", "r1", i, o)
      inCall == m.call \notin {"", "drop"} /\ m.callArena = a
  IN IF Get(e, "panics", FALSE)
     THEN [m5 EXCEPT !.destructed = @ \cup {o}, !.dpanic = @ \cup {o}, !.dpanicNow = TRUE]
     ELSE [m5 EXCEPT !.destructed = @ \cup {o}, !.callCredQ = IF inCall THEN @ + m.ar[a].pc.df ELSE @]

OnRelease(m, e, i) ==
  LET o == e.o IN
  IF ~Known(m, o) THEN Flag(m, "TOOL", "unknown-block", i, o)
  ELSE
  LET a == m.owner[o]
      \* C04 r2: no block is released twice
      m1 == Check(m, TRUE, ~e.double /\ o \notin m.released, "C04", "r2", i, o)
      \* C04 r3 / C17 r2: release hands back the layout that was requested
      m2 == Check(m1, TRUE, e.req = e.rel, "C04", "r3", i, o)
      m3 == Check(m2, TRUE, m.cb = "", "C03", "r2", i, o)
      m4a == Check(m3, ~InDrop(m, o), o \notin ReachNow(m, a), "C01", "r2", i, o)
      m4 == Check(m4a, ~InDrop(m, o) /\ o \in ReachNow(m, a) /\ o \in Close(m, m.ar[a].adopted), FALSE, "C06", "r2", i, o)
      \* C06 r3 (at the release itself): a block whose weak pointer was adopted during this cycle by the
      \* root or by an object that is still reachable is not released
      heldWeakly == \/ o \in Range(m.ar[a].rootW)
                    \/ \E q \in ReachNow(m, a) : o \in Range(m.weak[q])
      m4b == Check(m4, ~InDrop(m, o) /\ o \in m.ar[a].wadopted /\ heldWeakly, FALSE, "C06", "r3", i, o)
      \* C04 r5: a value with a destructor is destructed before its block goes
      m5 == Check(m4b, m.dtor[o], o \in m.destructed, "C04", "r5", i, o)
      \* C17 r3: nothing was written outside the block
      m6 == Check(m5, TRUE, e.guard_ok, "C17", "r3", i, o)
      m7 == Check(m6, m.call # "" \/ m.cb # "",
                  a = (IF m.call # "" THEN m.callArena ELSE m.cbArena), "C20", "r1", i, o)
  IN [m7 EXCEPT !.released = @ \cup {o},
                !.callCredQ = IF m.call \notin {"", "drop"} /\ m.callArena = a THEN @ + m.ar[a].pc.ff ELSE @]

\* a hop of the lock-step traversal
OnDeref(m, e, i) ==
  LET a == ArenaOf(e) IN
  IF e.ok THEN Hit(m, "C01.r3")
  ELSE IF e.o = 0 THEN Flag(m, "C01", "r4", i, 0)
  ELSE LET rm == WithReach(m, a)
           m1 == rm[2]
       IN IF e.why = "content" THEN Flag(Hit(m1, "C01.r4"), "C01", "r4", i, e.o)       \* reads what was stored there
          ELSE IF e.o \in rm[1] THEN                                                  \* reachable value gone
                 LET m2 == Flag(Hit(m1, "C01.r3"), "C01", "r3", i, e.o)
                 IN Check(m2, e.o \in Close(m2, m2.ar[a].adopted), FALSE, "C06", "r2", i, e.o)
          ELSE Flag(Hit(m1, "C05.r6"), "C05", "r6", i, e.o)                            \* upgraded pointer not usable

\* C03 r3: every pointer obtained during a callback is still valid when the callback ends
OnHeld(m, e, i) == Check(m, TRUE, e.ok, "C03", "r3", i, e.o)

\* a query of a weak pointer held by the root or by an accessible object
OnWeak(m, e, i) ==
  LET a == ArenaOf(e)  t == e.t
      rm == WithReach(m, a)
      R == rm[1]
      m0 == rm[2]
      ph == m0.ar[a].phase
      hasD == Known(m0, t) /\ m0.dtor[t]
      \* C05 r5: the target's block is still allocated
      m1a == Check(m0, TRUE, e.block /\ Known(m0, t) /\ t \notin m0.released, "C05", "r5", i, t)
      \* C06 r3: a weak pointer adopted through a barrier path keeps its target queryable
      m1 == Check(m1a, ~e.block /\ t \in m0.ar[a].wadopted, FALSE, "C06", "r3", i, t)
  IN IF ~e.block \/ ~Known(m0, t) THEN m1
     ELSE
     LET \* r1: upgrade returns only values that were not destructed
         m2 == Check(m1, e.some, t \notin m0.destructed, "C05", "r1", i, t)
         \* r2: upgrade always succeeds for a strongly reachable target
         m3 == Check(m2, t \in R, e.some, "C05", "r2", i, t)
         \* r3: it fails only when the target was destructed or the arena is Sweeping
         m4 == Check(m3, ~e.some, e.dropped \/ ph = "Sweeping", "C05", "r3", i, t)
         \* r4: is_dropped reports exactly whether the destructor has run, and never reverts
         m5 == Check(m4, hasD, e.dropped = (t \in m0.destructed), "C05", "r4", i, t)
         m6 == Check(m5, t \in m0.everDropped, e.dropped, "C05", "r4b", i, t)
     IN [m6 EXCEPT !.everDropped = IF e.dropped THEN @ \cup {t} ELSE @]

OnIsDead(m, e, i) ==
  LET a == ArenaOf(e)  o == e.o
      rm == WithReach(m, a)
      R == rm[1]
      m0 == rm[2]
      \* C07 r1: nothing strongly reachable is dead (asked through a Gc or through a GcWeak)
      m1 == Check(m0, o \in R, ~e.r, "C07", "r1", i, o)
      \* C07 r2: with no mutation since marking began, dead <=> unreachable
      m2 == Check(m1, ~m0.ar[a].mutSinceWake /\ m0.ar[a].resurrected = {}, e.r = (o \notin R), "C07", "r2", i, o)
  IN [m2 EXCEPT !.ar[a].dead = IF e.r THEN @ \cup {o} ELSE @]

OnResurrect(m, e, i) ==
  LET a == ArenaOf(e)  t == e.t
      \* C07 r3: resurrect returns None exactly for destructed targets
      m1 == Check(m, Known(m, t) /\ m.dtor[t], e.some = (t \notin m.destructed), "C07", "r3", i, t)
  IN IF ~e.some THEN m1
     ELSE [m1 EXCEPT !.ar[a].resurrected = @ \cup {t},
                     !.ar[a].revived = @ \/ t \in m.ar[a].dead,
                     !.ar[a].mutSinceWake = TRUE]

\* epilogue of C02: two finish_cycle calls were just made with no mutation in between
OnC02Check(m, e, i) ==
  LET a == ArenaOf(e)
      R == ReachOf(m, a)
      objs == m.ar[a].objs
      undestructed == {o \in objs : m.dtor[o] /\ o \notin m.destructed}
      blocks == objs \ m.released
      \* r1: exactly the strongly reachable values are undestructed
      m1 == Check(m, TRUE, undestructed = {o \in R : m.dtor[o]}, "C02", "r1", i, Cardinality(undestructed))
      \* r2: the only other allocations still counted are shells that a reachable weak pointer refers to
      \* (and blocks lost to a destructor that panicked: the crate leaks them on purpose)
      m2 == Check(m1, TRUE, R \subseteq blocks /\ (blocks \ R) \subseteq (WeakTargetsOfReachable(m, a, R) \cup m.dpanic),
                  "C02", "r2", i, Cardinality(blocks))
      m3 == Check(m2, TRUE, e.count = Cardinality(blocks), "C02", "r3", i, e.count)
      m4 == Check(m3, TRUE, e.phase = "Sleeping", "C02", "r4", i, 0)
  IN m4

OnDropBegin(m, e, i) == [m EXCEPT !.ar[ArenaOf(e)].dropping = TRUE, !.call = "drop", !.callArena = ArenaOf(e),
                                  !.callReach = {}, !.dpanicNow = FALSE]

OnDropEnd(m, e, i) ==
  LET a == ArenaOf(e)
      objs == m.ar[a].objs
      \* C04 r4: everything was destructed (once: r1) and every block went back (once: r2)
      \* (the block of a value whose destructor panicked may be lost: Drop for Context itself skips it)
      m1 == Check(m, TRUE, \A o \in objs : (o \in m.released \/ o \in m.dpanic) /\ (m.dtor[o] => o \in m.destructed),
                  "C04", "r4", i, Cardinality(objs \ m.released))
      \* C04 r6 / C10 r1: the retained Metrics handle reads zero
      \* (zero, plus the blocks lost to panicking destructors, which were never released)
      m2 == Check(m1, TRUE, e.count = Cardinality((objs \cap m.dpanic) \ m.released), "C04", "r6", i, e.count)
      \* r7: dropping the arena does not panic (unless a destructor did)
      m3 == Check(m2, TRUE, ~e.panicked \/ m.dpanicNow, "C04", "r7", i, 0)
  IN [m3 EXCEPT !.ar[a].dropping = FALSE, !.ar[a].live = FALSE, !.call = ""]

OnEnd(m, e, i) ==
  \* every tracked block of the behaviour is back with the allocator
  Check(m, TRUE, e.outstanding = Cardinality(m.dpanic \ m.released) /\ ~e.overflow, "C04", "r8", i, e.outstanding)

Step(m0, e, i) ==
  LET m == [m0 EXCEPT !.line = i]  ev == e.ev IN
  CASE ev = "reset"      -> OnReset(m, e, i)
    [] ev = "arena_new"  -> OnArenaNew(m, e, i)
    [] ev = "alloc"      -> OnAlloc(m, e, i)
    [] ev = "store"      -> OnStore(m, e, i)
    [] ev = "remove"     -> OnRemove(m, e, i)
    [] ev = "wstore"     -> OnWStore(m, e, i)
    [] ev = "wremove"    -> OnWRemove(m, e, i)
    [] ev = "barrier"    -> OnBarrier(m, e, i)
    [] ev = "cb_begin"   -> OnCbBegin(m, e, i)
    [] ev = "cb_end"     -> OnCbEnd(m, e, i)
    [] ev = "cb_unwind"  -> OnCbUnwind(m, e, i)
    [] ev = "call_begin" -> OnCallBegin(m, e, i)
    [] ev = "call_end"   -> OnCallEnd(m, e, i)
    [] ev = "destruct"   -> OnDestruct(m, e, i)
    [] ev = "release"    -> OnRelease(m, e, i)
    [] ev = "deref"      -> OnDeref(m, e, i)
    [] ev = "weak"       -> OnWeak(m, e, i)
    [] ev = "held"       -> OnHeld(m, e, i)
    [] ev = "is_dead"    -> OnIsDead(m, e, i)
    [] ev = "resurrect"  -> OnResurrect(m, e, i)
    [] ev = "c02_check"  -> OnC02Check(m, e, i)
    [] ev = "drop_begin" -> OnDropBegin(m, e, i)
    [] ev = "drop_end"   -> OnDropEnd(m, e, i)
    [] ev = "end"        -> OnEnd(m, e, i)
    [] ev = "set_pacing" -> OnSetPacing(m, e, i)
    [] ev = "stash"      -> OnStash(m, e, i)
    [] ev = "clone_handle" -> OnCloneHandle(m, e, i)
    [] ev = "drop_handle" -> OnDropHandle(m, e, i)
    [] ev = "fetch"      -> OnFetch(m, e, i)
    [] ev = "adjust_debt" -> OnAdjustDebt(m, e, i)
    [] OTHER             -> m       \* skip, adjust_debt, ...: no rule

=============================================================================
