----------------------------- MODULE TraceShape -----------------------------
(***************************************************************************)
(* C15 / C16: what a Collect implementation must report to the tracer.     *)
(*                                                                         *)
(* A value shape is a container (or a derived struct / enum) whose type    *)
(* parameters are filled with LEAVES: a strong pointer, a weak pointer, a  *)
(* pointer-free value, or a small nested container of pointers.  Two       *)
(* operators ARE the law:                                                  *)
(*   Reported(shape)   how many strong and how many weak pointers          *)
(*                     Collect::trace must report (every contained Gc as   *)
(*                     strong, every GcWeak as weak, in every type         *)
(*                     parameter position and element position; only the   *)
(*                     active variant; never a require_static field);      *)
(*   NeedsTrace(shape) the value of NEEDS_TRACE (true iff some traced      *)
(*                     parameter / field TYPE's is -- a type-level fact,   *)
(*                     independent of the element count and the variant).  *)
(* TLC enumerates every shape of the spaces below; a generator renders     *)
(* each into Rust that builds the value, traces it with a recording        *)
(* implementation of the public Trace trait and reads NEEDS_TRACE;         *)
(* ShapeTrace validates the recorded observations against these operators. *)
(***************************************************************************)
EXTENDS Naturals, Integers, Sequences, FiniteSets, TLC, Json

\* ---------------------------------------------------------------- leaves
\* S  Gc<u32>            W  GcWeak<u32>          N  u32 (pointer-free)
\* OS Option<Gc<u32>> (Some)   VS Vec<Gc<u32>> with two elements   BW Box<GcWeak<u32>>
Leaves    == {"S", "W", "N", "OS", "VS", "BW"}
KeyLeaves == {"S", "N"}            \* usable where Hash / Ord is needed (Gc<T> compares through T)
CopyLeaves == {"S", "W", "N", "OS"}  \* usable inside Lock<T: Copy>
\* recursive leaves (derived types only): the field's type mentions the type being derived
\* R0 Option<Gc<Self>> = None   R1 Option<Gc<Self>> = Some(..)   RW Option<GcWeak<Self>> = Some(..)
RecLeaves == {"R0", "R1", "RW"}
LStrong(l) == CASE l = "S" -> 1 [] l = "OS" -> 1 [] l = "VS" -> 2 [] l = "R1" -> 1 [] OTHER -> 0
LWeak(l)   == CASE l = "W" -> 1 [] l = "BW" -> 1 [] l = "RW" -> 1 [] OTHER -> 0
LNeeds(l)  == l # "N"

\* ---------------------------------------------------------------- provided containers (C16)
\* name, feature that enables the impl, number of type parameters, parameter positions that must
\* be key leaves, element counts to try, and how many times each parameter occurs per element
Containers ==
  { [name |-> "Option",     feature |-> "core", params |-> 1, keys |-> {}, sizes |-> {0, 1}],
    [name |-> "ResultOk",   feature |-> "core", params |-> 2, keys |-> {}, sizes |-> {1}],
    [name |-> "ResultErr",  feature |-> "core", params |-> 2, keys |-> {}, sizes |-> {1}],
    [name |-> "Array",      feature |-> "core", params |-> 1, keys |-> {}, sizes |-> {0, 1, 3}],
    [name |-> "BoxSlice",   feature |-> "core", params |-> 1, keys |-> {}, sizes |-> {0, 2}],
    [name |-> "Box",        feature |-> "core", params |-> 1, keys |-> {}, sizes |-> {1}],
    [name |-> "Rc",         feature |-> "core", params |-> 1, keys |-> {}, sizes |-> {1}],
    [name |-> "Arc",        feature |-> "core", params |-> 1, keys |-> {}, sizes |-> {1}],
    [name |-> "Vec",        feature |-> "core", params |-> 1, keys |-> {}, sizes |-> {0, 1, 3}],
    [name |-> "VecDeque",   feature |-> "core", params |-> 1, keys |-> {}, sizes |-> {0, 1, 3}],
    [name |-> "LinkedList", feature |-> "core", params |-> 1, keys |-> {}, sizes |-> {0, 2}],
    [name |-> "BinaryHeap", feature |-> "core", params |-> 1, keys |-> {1}, sizes |-> {0, 2}],
    [name |-> "BTreeMap",   feature |-> "core", params |-> 2, keys |-> {1}, sizes |-> {0, 2}],
    [name |-> "BTreeSet",   feature |-> "core", params |-> 1, keys |-> {1}, sizes |-> {0, 2}],
    [name |-> "HashMap",    feature |-> "std",  params |-> 2, keys |-> {1}, sizes |-> {0, 2}],
    [name |-> "HashSet",    feature |-> "std",  params |-> 1, keys |-> {1}, sizes |-> {0, 2}],
    [name |-> "Lock",       feature |-> "core", params |-> 1, keys |-> {}, sizes |-> {1}],
    [name |-> "RefLock",    feature |-> "core", params |-> 1, keys |-> {}, sizes |-> {1}],
    [name |-> "OnceLock",   feature |-> "core", params |-> 1, keys |-> {}, sizes |-> {0, 1}],
    \* Box<dyn Tr<'gc> + 'gc> for a client trait Tr: DynCollect made Collect with dyn_collect!: tracing goes through
    \* the blanket DynCollect impl (dyn_trace and its wrapper); NEEDS_TRACE of a trait object is (necessarily) true
    [name |-> "DynTrait",   feature |-> "core", params |-> 1, keys |-> {}, sizes |-> {1}],
    [name |-> "SliceWithHeader", feature |-> "core", params |-> 2, keys |-> {}, sizes |-> {0, 2}],   \* header once + n elements
    [name |-> "HbHashMap",  feature |-> "hashbrown", params |-> 2, keys |-> {1}, sizes |-> {0, 2}],
    [name |-> "HbHashSet",  feature |-> "hashbrown", params |-> 1, keys |-> {1}, sizes |-> {0, 2}],
    [name |-> "HbHashTable", feature |-> "hashbrown", params |-> 1, keys |-> {1}, sizes |-> {0, 2}],
    [name |-> "IndexMap",   feature |-> "indexmap", params |-> 2, keys |-> {1}, sizes |-> {0, 2}],
    [name |-> "IndexSet",   feature |-> "indexmap", params |-> 1, keys |-> {1}, sizes |-> {0, 2}],
    [name |-> "SlotMap",    feature |-> "slotmap", params |-> 1, keys |-> {}, sizes |-> {0, 2}],
    [name |-> "SmallVec",   feature |-> "smallvec", params |-> 1, keys |-> {}, sizes |-> {0, 1, 3}],  \* inline cap 2: spills at 3
    [name |-> "EnumMap",    feature |-> "enum-map", params |-> 1, keys |-> {}, sizes |-> {2}] }         \* one value per key of a 2-variant enum

ContainerNames == {c.name : c \in Containers}
ByName(n) == CHOOSE c \in Containers : c.name = n

AllowedLeaves(c, i) == IF i \in c.keys THEN KeyLeaves ELSE IF c.name = "Lock" THEN CopyLeaves ELSE Leaves

\* occurrences of parameter i in a value with n elements
Occ(c, i, n) ==
  CASE c.name = "ResultOk"  -> IF i = 1 THEN 1 ELSE 0
    [] c.name = "ResultErr" -> IF i = 2 THEN 1 ELSE 0
    [] c.name = "SliceWithHeader" -> IF i = 1 THEN 1 ELSE n
    [] OTHER -> n

ContainerShapes ==
  {[kind |-> "container", name |-> c.name, leaves |-> ls, n |-> n] :
     c \in Containers, n \in UNION {cc.sizes : cc \in Containers}, ls \in UNION {[1..k -> Leaves] : k \in 1..2}}

ValidContainer(sh) ==
  LET c == ByName(sh.name) IN
  /\ DOMAIN sh.leaves = 1..c.params /\ sh.n \in c.sizes
  /\ \A i \in 1..c.params : sh.leaves[i] \in AllowedLeaves(c, i)

\* ---------------------------------------------------------------- tuples (C16): arity 1..16
\* the leaf l sits at position pos, every other position holds N (pos = 0: all N)
TupleShapes == {[kind |-> "tuple", arity |-> a, pos |-> p, leaf |-> l] :
                  a \in 1..16, p \in 0..16, l \in Leaves \ {"N"}}
ValidTuple(sh) == sh.pos <= sh.arity /\ (sh.pos = 0 => sh.leaf = "S")

\* ---------------------------------------------------------------- derived types (C15)
\* struct: named / tuple / unit, fields with a leaf each, some marked require_static (only N may be)
\* enum:   variants unit / tuple(leaf) / named{leaf, leaf}; one of them is the active one
DLeaves == {"S", "W", "N", "VS"} \cup RecLeaves
DeriveShapes ==
  {[kind |-> "struct", style |-> st, fields |-> fs, rs |-> r, generic |-> g] :
     st \in {"named", "tuple"}, fs \in UNION {[1..k -> DLeaves] : k \in 1..3}, r \in SUBSET (1..3), g \in {"none", "param", "bound"}}
  \cup {[kind |-> "struct", style |-> "unit", fields |-> <<>>, rs |-> {}, generic |-> "none"]}
  \cup {[kind |-> "enum", a |-> la, b |-> lb, c |-> lc, active |-> v, rs |-> r, generic |-> "none"] :
          la \in DLeaves, lb \in DLeaves, lc \in DLeaves, v \in {"Unit", "Tup", "Named"}, r \in SUBSET {2}}
ValidDerive(sh) ==
  IF sh.kind = "struct"
  THEN /\ sh.rs \subseteq DOMAIN sh.fields
       /\ \A i \in sh.rs : sh.fields[i] = "N"               \* require_static needs a 'static field type
       /\ sh.generic # "none" => sh.style = "named" /\ Len(sh.fields) >= 1
       \* self-referential shapes (linked lists, trees): at most one recursive field, no type parameter
       /\ Cardinality({i \in DOMAIN sh.fields : sh.fields[i] \in RecLeaves}) <= 1
       /\ (\E i \in DOMAIN sh.fields : sh.fields[i] \in RecLeaves) => sh.generic = "none"
  ELSE \* enum E { Unit, Tup(a), Named { x: b, y: c } }; field y may be require_static (then c = N)
       /\ 2 \in sh.rs => sh.c = "N"
       /\ Cardinality({x \in {"a", "b", "c"} : sh[x] \in RecLeaves}) <= 1

Shapes == {s \in ContainerShapes : ValidContainer(s)} \cup {s \in TupleShapes : ValidTuple(s)}
          \cup {s \in DeriveShapes : ValidDerive(s)}

\* ---------------------------------------------------------------- the law
Sum(f, S) == LET RECURSIVE Acc(_)
                 Acc(T) == IF T = {} THEN 0 ELSE LET x == CHOOSE y \in T : TRUE IN f[x] + Acc(T \ {x})
             IN Acc(S)

Reported(sh) ==
  CASE sh.kind = "container" ->
         LET c == ByName(sh.name) IN
         [strong |-> Sum([i \in 1..c.params |-> Occ(c, i, sh.n) * LStrong(sh.leaves[i])], 1..c.params),
          weak   |-> Sum([i \in 1..c.params |-> Occ(c, i, sh.n) * LWeak(sh.leaves[i])], 1..c.params)]
    [] sh.kind = "tuple" ->
         [strong |-> IF sh.pos = 0 THEN 0 ELSE LStrong(sh.leaf), weak |-> IF sh.pos = 0 THEN 0 ELSE LWeak(sh.leaf)]
    [] sh.kind = "struct" ->
         LET tr == DOMAIN sh.fields \ sh.rs IN
         [strong |-> Sum([i \in DOMAIN sh.fields |-> LStrong(sh.fields[i])], tr),
          weak   |-> Sum([i \in DOMAIN sh.fields |-> LWeak(sh.fields[i])], tr)]
    [] sh.kind = "enum" ->
         CASE sh.active = "Unit" -> [strong |-> 0, weak |-> 0]
           [] sh.active = "Tup"  -> [strong |-> LStrong(sh.a), weak |-> LWeak(sh.a)]
           [] sh.active = "Named" -> [strong |-> LStrong(sh.b) + (IF 2 \in sh.rs THEN 0 ELSE LStrong(sh.c)),
                                      weak   |-> LWeak(sh.b) + (IF 2 \in sh.rs THEN 0 ELSE LWeak(sh.c))]

NeedsTrace(sh) ==
  CASE sh.kind = "container" -> sh.name = "DynTrait" \/ \E i \in DOMAIN sh.leaves : LNeeds(sh.leaves[i])
    [] sh.kind = "tuple"  -> sh.pos # 0
    [] sh.kind = "struct" -> \E i \in DOMAIN sh.fields \ sh.rs : LNeeds(sh.fields[i])
    [] sh.kind = "enum"   -> LNeeds(sh.a) \/ LNeeds(sh.b) \/ (2 \notin sh.rs /\ LNeeds(sh.c))

Expect(sh) == [strong |-> Reported(sh).strong, weak |-> Reported(sh).weak, needs_trace |-> NeedsTrace(sh)]

\* sanity of the law itself (checked by TLC on every shape): nothing is reported by a value whose
\* type claims to need no tracing; element count 0 reports nothing for homogeneous containers
LawOK(sh) ==
  /\ ~NeedsTrace(sh) => Reported(sh).strong = 0 /\ Reported(sh).weak = 0
  /\ (sh.kind = "container" /\ sh.n = 0 /\ sh.name # "SliceWithHeader") => Reported(sh).strong + Reported(sh).weak = 0
=============================================================================
