----------------------------- MODULE MC_Convert -----------------------------
(* TLC enumerates every conversion chain of Convert.tla (and the ZST-cache grid), checks that the
   view reached is well defined and that a strong view can always be erased to a plain Gc<()> the
   collector can hold, and prints each chain for the harness. *)
EXTENDS Convert

VARIABLES t, v, chain, zp
vars == <<t, v, chain, zp>>

Init == \/ t \in Targets /\ v = "typed" /\ chain = <<>> /\ zp = [align |-> 0, max |-> 0, zst |-> FALSE]
        \/ t = "zstcache" /\ v = "typed" /\ chain = <<>> /\ zp \in ZstPoints
Next == /\ t \in Targets /\ Len(chain) < MaxChain
        /\ \E c \in Convs : Edge(t, v, c) # None /\ v' = Edge(t, v, c) /\ chain' = Append(chain, c)
        /\ UNCHANGED <<t, zp>>
Spec == Init /\ [][Next]_vars

Inv == /\ v \in Views
       /\ t \in Targets => ViewAfter(t, "typed", chain) = v
       \* from every view the collector-visible identity is recoverable: a strong view erases to unit,
       \* a weak one upgrades (possibly after erasing) to something that does
       /\ t \in Targets /\ Strong(v) /\ v # "unit" => Edge(t, v, "erase") = "unit"
       /\ t \in Targets /\ ~Strong(v) => Edge(t, v, "upgrade") # None
Emit == PrintT(<<"BEH", IF t = "zstcache" THEN ToJson([zst |-> zp, expect |-> ExpectZst(zp)])
                        ELSE ToJson([target |-> t, chain |-> chain, expect |-> ExpectChain(t, chain)])>>)
=============================================================================
