---------------------------- MODULE ConvertTrace ----------------------------
(***************************************************************************)
(* C19, implementation -> specification: each record is one conversion     *)
(* chain (or one ZST-cache grid point) of Convert.tla applied in the real  *)
(* crate.                                                                  *)
(***************************************************************************)
EXTENDS Convert, IOUtils

Rec == ndJsonDeserialize(IOEnv.TRACE)

VARIABLES i, viol, seenChains, seenZst
tvars == <<i, viol, seenChains, seenZst>>

ZpOf(r) == [align |-> r.zst.align, max |-> r.zst.max, zst |-> r.zst.zst]

BrokenChain(r) ==
  LET e == ExpectChain(r.target, r.chain)  o == r.obs IN
  \* r1: every chain the specification allows is accepted (upgrade of a live target succeeds)
  (IF o.applied THEN {} ELSE {"r1"})
  \cup (IF ~o.applied THEN {} ELSE
    \* r2: the derived handle is ptr_eq to the original and has the same address
    (IF o.same_addr /\ o.ptr_eq THEN {} ELSE {"r2"})
    \* r3: it dereferences to the original value
    \cup (IF o.derefs = e.derefs /\ o.deref_ok THEN {} ELSE {"r3"})
    \* r4: the collector treats it as the same object: keeping only a strong derived handle keeps
    \*     the value alive; a weak one does not, reports is_dropped and no longer upgrades
    \cup (IF o.strong = e.strong
             /\ (IF e.strong THEN o.survived ELSE o.destructed_while_only_weak /\ o.weak_is_dropped /\ ~o.weak_upgrades)
          THEN {} ELSE {"r4"})
    \* r5: it is destructed exactly once, as its original type, and its block released once
    \cup (IF o.destructs_total = o.parts /\ o.types_ok /\ o.released_once THEN {} ELSE {"r5"}))

BrokenZst(r) ==
  LET e == ExpectZst(ZpOf(r))  o == r.obs IN
  \* r6: the cache returns its shared pointer exactly for zero-sized types whose alignment fits
  (IF o.cached = e.cached /\ o.cached_again = e.cached /\ o.shared = e.cached /\ o.is_cache_ptr = e.cached
      /\ o.aligned /\ o.cache_ptr_aligned THEN {} ELSE {"r6"})
  \* r7: ptr_eq speaks about the ALLOCATION: two pointers of one static type to the same allocation are
  \*     ptr_eq whatever their metadata (here: two different zero-sized types of one cache, unsized to the
  \*     same trait-object type, carry different vtables), and pointers to different allocations are not
  \cup (IF o.dyn_ptr_eq = o.dyn_same_alloc /\ o.dyn_weak_ptr_eq = o.dyn_same_alloc /\ o.dyn_same_alloc = e.cached
        THEN {} ELSE {"r7"})
  \* r8: the shared allocation is the same object for the collector whoever holds it: a reachable cache (here a
  \*     field of a struct behind a Gc) keeps it alive, a pointer the cache handed out keeps it alive without the
  \*     cache exactly when it IS the shared one, and it is released once when neither exists
  \cup (IF o.kept_by_cache /\ o.handed_is_shared = e.cached /\ o.kept_by_handed = e.cached /\ o.shared_released_once
        THEN {} ELSE {"r8"})

TInit == i = 1 /\ viol = {} /\ seenChains = {} /\ seenZst = {}
TNext ==
  \/ /\ i <= Len(Rec)
     /\ LET r == Rec[i] IN
        IF ~r.supported THEN viol' = viol \cup {<<"TOOL", "unsupported", i>>} /\ UNCHANGED <<seenChains, seenZst>>
        ELSE IF r.ev = "zst"
        THEN viol' = viol \cup {<<"C19", rule, i>> : rule \in BrokenZst(r)} /\ seenZst' = seenZst \cup {ZpOf(r)}
             /\ UNCHANGED seenChains
        ELSE viol' = viol \cup {<<"C19", rule, i>> : rule \in BrokenChain(r)}
             /\ seenChains' = seenChains \cup {<<r.target, r.chain>>} /\ UNCHANGED seenZst
     /\ i' = i + 1
  \/ /\ i = Len(Rec) + 1
     /\ PrintT(<<"VERDICT", ToJson([events |-> Len(Rec), viol |-> viol, chains |-> Cardinality(seenChains),
                                   missing |-> Cardinality(ZstPoints \ seenZst), points |-> Cardinality(ZstPoints)])>>)
     /\ i' = i + 1 /\ UNCHANGED <<viol, seenChains, seenZst>>
TSpec == TInit /\ [][TNext]_tvars
Accepted == TLCGet("stats").diameter = Len(Rec) + 2
=============================================================================
