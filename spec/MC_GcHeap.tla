------------------------------ MODULE MC_GcHeap ------------------------------
(***************************************************************************)
(* Next-state relation, invariants, action properties and behaviour        *)
(* emitters for GcHeap.  The cfg files only choose constants.                *)
(***************************************************************************)
EXTENDS GcHeap, Json

CONSTANTS
  MaxOps,       \* bound on the number of operations of a behaviour (0 = unbounded)
  Emit,         \* "none" | "states" | "classes" : which behaviours are printed for replay
  RootViaSet,   \* subset of RootVias used for root edits
  WithBarrierOnly, WithFinalize, WithDrop, WithMany, WithWeak, WithUnlink, WithDebtCalls, WithLeak,
  Prelude,      \* name of a scripted prefix the exploration starts after ("" = the empty arena)
  DFaultAts,    \* set of destructor-run indices at which a destructor panic may be injected ({} = none)
  FaultAts      \* set of trace-call indices at which a trace panic may be injected ({} = no faults)

VARIABLES h, hist,
          pcl      \* history: the coverage class of the previous transition (see EmitClasses)

vars == <<h, hist, pcl>>
\* VIEW: neither the history nor (in the safety configurations, where an explicit budget decides
\* how far a call runs) the metric counters are part of the state
vw == [h EXCEPT !.mt = 0, !.pc = 0]
\* pair-class emission needs the class of the step that led here: two steps reaching one heap by
\* different classes (say a forward barrier with and without a holder) must both be continued
vwp == <<vw, pcl>>

\* ---------------------------------------------------------------- preludes
\* Breadth-first exploration reaches every state, but only up to the depth it can afford.  Some heaps
\* that matter lie deep (a dead shell needs a whole cycle; three objects are needed for "the holder is not
\* yet traced while the adopter is black").  A prelude is a scripted operation sequence, interpreted with
\* the same operators, after which the exhaustive exploration starts; the emitted behaviours begin with it.
Ord == CHOOSE f \in [1..Cardinality(Obj) -> Obj] : \A i, j \in 1..Cardinality(Obj) : i # j => f[i] # f[j]
ApplyOp(s, op) ==
  CASE op.op = "alloc_root"  -> AllocRoot(s, op.o, op.k)
    [] op.op = "alloc_into"  -> AllocInto(s, op.o, op.k, op.p, op.path)
    [] op.op = "link"        -> Link(s, op.p, op.c, op.path)
    [] op.op = "unlink"      -> Unlink(s, op.p, op.c, op.path)
    [] op.op = "wlink"       -> WLink(s, op.p, op.t, op.path)
    [] op.op = "wunlink"     -> WUnlink(s, op.p, op.t, op.path)
    [] op.op = "root_remove" -> RootRemove(s, op.c)
    [] op.op = "root_wadd"   -> RootWAdd(s, op.t)
    [] op.op = "alloc_temp"  -> AllocTemp(s, op.o, op.k)
    [] op.op = "call"        -> Call(s, op.kind, op.b, op.g, op.cont)
RECURSIVE ApplyAll(_, _, _)
ApplyAll(s, ops, i) == IF i > Len(ops) THEN s ELSE ApplyAll(ApplyOp(s, ops[i]), ops, i + 1)
FC == [op |-> "call", kind |-> "finish_cycle", b |-> 0, g |-> "P1", cont |-> FALSE]
PreludeOps ==
  CASE Prelude = "" -> <<>>
    \* two rooted nodes x1, x2; x3 is the DEAD SHELL of a destructed value, weakly held by x1 only
    [] Prelude = "shell" ->
         LET x1 == Ord[1]  x2 == Ord[2]  x3 == Ord[3] IN
         << [op |-> "alloc_root", o |-> x1, k |-> "N", via |-> "mutate_root"],
            [op |-> "alloc_root", o |-> x2, k |-> "N", via |-> "mutate_root"],
            [op |-> "alloc_into", o |-> x3, k |-> "N", p |-> x2, path |-> "borrow_mut"],
            [op |-> "wlink", p |-> x1, t |-> x3, path |-> "borrow_mut"],
            [op |-> "unlink", p |-> x2, c |-> x3, path |-> "borrow_mut"],
            FC >>
    \* the same heap one cycle earlier: x3 is weakly held garbage that is still alive (condemned at the next sweep)
    [] Prelude = "weakgarbage" ->
         LET x1 == Ord[1]  x2 == Ord[2]  x3 == Ord[3] IN
         << [op |-> "alloc_root", o |-> x1, k |-> "N", via |-> "mutate_root"],
            [op |-> "alloc_root", o |-> x2, k |-> "N", via |-> "mutate_root"],
            [op |-> "alloc_into", o |-> x3, k |-> "N", p |-> x2, path |-> "borrow_mut"],
            [op |-> "wlink", p |-> x1, t |-> x3, path |-> "borrow_mut"],
            FC,
            [op |-> "unlink", p |-> x2, c |-> x3, path |-> "borrow_mut"] >>
    \* x1 rooted and holding a weak pointer to x2; x2 -> x3; x2 and x3 are otherwise garbage (finalization:
    \* resurrecting x2 must carry x3)
    [] Prelude = "weakchain" ->
         LET x1 == Ord[1]  x2 == Ord[2]  x3 == Ord[3] IN
         << [op |-> "alloc_root", o |-> x1, k |-> "N", via |-> "mutate_root"],
            [op |-> "alloc_into", o |-> x2, k |-> "N", p |-> x1, path |-> "borrow_mut"],
            [op |-> "alloc_into", o |-> x3, k |-> "N", p |-> x2, path |-> "borrow_mut"],
            [op |-> "wlink", p |-> x1, t |-> x2, path |-> "borrow_mut"],
            [op |-> "unlink", p |-> x1, c |-> x2, path |-> "borrow_mut"] >>
    \* one of each fate in list order: plain garbage x3, weakly held garbage x2, the survivor x1 (sweeps of three)
    [] Prelude = "mixed" ->
         LET x1 == Ord[1]  x2 == Ord[2]  x3 == Ord[3] IN
         << [op |-> "alloc_root", o |-> x1, k |-> "N", via |-> "mutate_root"],
            [op |-> "alloc_into", o |-> x2, k |-> "N", p |-> x1, path |-> "borrow_mut"],
            [op |-> "wlink", p |-> x1, t |-> x2, path |-> "borrow_mut"],
            [op |-> "unlink", p |-> x1, c |-> x2, path |-> "borrow_mut"],
            [op |-> "alloc_temp", o |-> x3, k |-> "N"] >>
    \* a rooted chain x1 -> x2 -> x3 that has survived a cycle
    [] Prelude = "chain" ->
         LET x1 == Ord[1]  x2 == Ord[2]  x3 == Ord[3] IN
         << [op |-> "alloc_root", o |-> x1, k |-> "N", via |-> "mutate_root"],
            [op |-> "alloc_into", o |-> x2, k |-> "N", p |-> x1, path |-> "borrow_mut"],
            [op |-> "alloc_into", o |-> x3, k |-> "N", p |-> x2, path |-> "borrow_mut"],
            FC >>

Init == h = ApplyAll(EmptyHeap, PreludeOps, 1) /\ hist = PreludeOps /\ pcl = <<>>

\* ---------------------------------------------------------------- helpers used by the emitters
RECURSIVE Chain(_, _, _)
Chain(s, o, n) == IF o = NoObj \/ n = 0 THEN <<>> ELSE <<o>> \o Chain(s, s.next[o], n - 1)
ListSeq(s) == Chain(s, s.head, Cardinality(Obj) + 1)

IndexOf(q, x) == IF x \in Range(q) THEN CHOOSE i \in DOMAIN q : q[i] = x ELSE Len(q) + 1

\* the objects the running sweep has not looked at yet
Unswept(s) == LET q == ListSeq(s) IN
  IF s.phase = "Sweep" /\ s.sweep # NoObj THEN {q[i] : i \in IndexOf(q, s.sweep)..Len(q)} ELSE {}

\* coverage class of a transition
\* (a trailing "d": the dead shell of a destructed value -- barriers and sweeps must treat it like any block)
Col(s, o) == IF o = NoObj THEN "-" ELSE IF ~s.alive[o] THEN "fresh"
             ELSE IF s.live[o] THEN s.color[o] ELSE s.color[o] \o "d"
PosOf(s, o) == IF s.phase # "Sweep" \/ o = NoObj THEN "-" ELSE IF o \in Unswept(s) THEN "unswept" ELSE "swept"
Fld(op, f) == IF f \in DOMAIN op THEN op[f] ELSE NoObj
ClassOf(s, op, s2) ==
  LET p == Fld(op, "p")  c == IF "c" \in DOMAIN op THEN op.c ELSE IF "t" \in DOMAIN op THEN op.t ELSE Fld(op, "o") IN
  IF op.op \in {"new_set", "remove_set", "stash", "clone_handle", "drop_handle"}
  THEN LET d == IF "d" \in DOMAIN op THEN op.d
                ELSE IF "hid" \in DOMAIN op THEN s.handles[op.hid].set ELSE NoObj
           hv == "hid" \in DOMAIN op /\ op.op # "stash" /\ HandleValid(s, s.handles[op.hid])
       IN <<op.op, ObsPhase(s), Col(s, d), Col(s, Fld(op, "c")), PosOf(s, d), PosOf(s, Fld(op, "c")), hv,
            IF d # NoObj /\ s.alive[d] THEN <<s.freeHead[d] # 0, Len(s.slots[d]),
                                               IF hv THEN s.slots[d][s.handles[op.hid].idx].rc ELSE 0>> ELSE <<>>,
            d # NoObj /\ d \in Range(s.rootD), s2.grayAgain # s.grayAgain>>
  ELSE IF op.op \in {"call", "start_sweeping", "finalize", "drop_arena", "failed_map_root", "failed_new"}
  THEN <<op.op, Fld(op, "kind"), Fld(op, "g"), Fld(op, "cont"), Fld(op, "fault"), ObsPhase(s), ObsPhase(s2),
         IF op.op = "call" THEN CallSig(s, op.kind, op.b, op.g, op.cont, IF "fault" \in DOMAIN op THEN op.fault ELSE NoFaultRec)
         ELSE IF op.op \in {"start_sweeping", "finalize"} /\ s.phase # "Sweep"
              THEN CallSig(s, "finish_marking", 0, "P1", FALSE, NoFaultRec) ELSE <<>>,
         Count(s) - Count(s2) > 0, s.gray # <<>>, s.grayAgain # <<>>, s.rootNT,
         IF op.op = "finalize" THEN <<Col(s2, op.t), op.t # NoObj>> ELSE <<>>,
         Fld(op, "n"), Fld(op, "mode"), Fld(op, "dat") >>
  ELSE <<op.op, Fld(op, "path"), Fld(op, "via"), ObsPhase(s), Col(s, p), Col(s, c),
         IF p = NoObj THEN "-" ELSE s.kind[p], PosOf(s, p), PosOf(s, c), s2.gray # s.gray \/ s2.grayAgain # s.grayAgain,
         Fld(op, "panic")>>


Do(s2, op) == h' = s2 /\ hist' = Append(hist, op) /\ pcl' = ClassOf(h, op, s2)

Running == h.phase # "Dropped"
A == Ordinary(h)
Hd == Holders(h)     \* accessible and not frozen by a leaked RefMut: can hold new pointers

\* ---------------------------------------------------------------- mutator
AllocRootA ==
  /\ Len(h.rootS) < MaxKids
  /\ \E o \in FreeIds(h), k \in Kinds, via \in RootViaSet :
       Do(AllocRoot(h, o, k), [op |-> "alloc_root", o |-> o, k |-> k, via |-> via])

AllocIntoA ==
  \E o \in FreeIds(h), k \in Kinds, p \in Hd :
    /\ HasRoom(h, p) \/ h.kind[p] = "L"
    /\ \E path \in StrongPaths(h.kind[p]) :
         Do(AllocInto(h, o, k, p, path), [op |-> "alloc_into", o |-> o, k |-> k, p |-> p, path |-> path])

AllocTempA ==
  \E o \in FreeIds(h), k \in Kinds :
    Do(AllocTemp(h, o, k), [op |-> "alloc_temp", o |-> o, k |-> k])

LinkA ==
  \E p \in Hd, c \in A :
    /\ c \notin Kids(h, p)
    /\ HasRoom(h, p) \/ h.kind[p] = "L"
    /\ \E path \in StrongPaths(h.kind[p]) :
         Do(Link(h, p, c, path), [op |-> "link", p |-> p, c |-> c, path |-> path])

UnlinkA ==
  \E p \in Hd : \E c \in Kids(h, p), path \in RemovePaths(h.kind[p]) :
    Do(Unlink(h, p, c, path), [op |-> "unlink", p |-> p, c |-> c, path |-> path])

RootAddA ==
  /\ Len(h.rootS) < MaxKids
  /\ \E c \in A \ Range(h.rootS), via \in RootViaSet :
       Do(RootAdd(h, c), [op |-> "root_add", c |-> c, via |-> via])

RootRemoveA ==
  \E c \in Range(h.rootS), via \in RootViaSet :
    Do(RootRemove(h, c), [op |-> "root_remove", c |-> c, via |-> via])

WLinkA ==
  \E p \in Hd, t \in A :
    /\ t \notin h.weak[p]
    /\ HasWeakRoom(h, p) \/ h.kind[p] = "L"
    /\ \E path \in WeakPaths(h.kind[p]) :
         Do(WLink(h, p, t, path), [op |-> "wlink", p |-> p, t |-> t, path |-> path])

WUnlinkA ==
  \E p \in Hd : \E t \in h.weak[p], path \in RemovePaths(h.kind[p]) :
    Do(WUnlink(h, p, t, path), [op |-> "wunlink", p |-> p, t |-> t, path |-> path])

RootWAddA ==
  /\ Cardinality(h.rootW) < MaxWeak
  /\ \E t \in A \ h.rootW, via \in RootViaSet :
       Do(RootWAdd(h, t), [op |-> "root_wadd", t |-> t, via |-> via])

RootWRemoveA ==
  \E t \in h.rootW, via \in RootViaSet :
    Do(RootWRemove(h, t), [op |-> "root_wremove", t |-> t, via |-> via])

BarrierOnlyA ==
  /\ WithBarrierOnly
  /\ \E p \in Hd, c \in A :
       \E path \in BarrierPaths(h.kind[p]) :
         Do(BarrierOnly(h, path, p, c), [op |-> "barrier", p |-> p, c |-> c, path |-> path])

\* Try to upgrade a weak pointer that the specification says must NOT upgrade (a condemned or
\* destructed target) and store the result: a no-op here; an implementation whose upgrade
\* wrongly succeeds adopts a doomed pointer, which the monitor then sees destructed while reachable.
\* (Successful upgrades followed by a store are LinkA with a weakly accessible child.)
UpgradeStoreA ==
  \E e \in WeakEdges(h), p \in Hd :
    /\ ~CanUpgrade(h, e[2])
    /\ HasRoom(h, p) \/ h.kind[p] = "L"
    /\ \E path \in StrongPaths(h.kind[p]) :
         Do(UpgradeStore(h, e[2], p, path), [op |-> "upgrade_store", h |-> e[1], t |-> e[2], p |-> p, path |-> path])

\* Copy a weak pointer out of an accessible holder into another object WITHOUT upgrading it: the target
\* need not be accessible (a condemned value during Sweep, the dead shell of a destructed one).  With a
\* following wunlink this is "moving" a GcWeak.  (Accessible targets: WLinkA.)
WCopyA ==
  \E e \in WeakEdges(h), p \in Hd :
    /\ e[2] \notin A /\ e[2] \notin h.weak[p]
    /\ HasWeakRoom(h, p) \/ h.kind[p] = "L"
    /\ \E path \in WeakPaths(h.kind[p]) :
         Do(WLink(h, p, e[2], path), [op |-> "wcopy", h |-> e[1], t |-> e[2], p |-> p, path |-> path])

\* one parent-only backward barrier, then several adoptions in the same callback
LinkManyA ==
  /\ WithMany
  /\ \E p \in Hd, c1 \in A, c2 \in A :
       /\ h.kind[p] \in {"N", "F"} /\ c1 # c2 /\ c1 \notin Kids(h, p) /\ c2 \notin Kids(h, p)
       /\ Len(h.strong[p]) + 2 <= MaxKids
       /\ Do(Mut([Backward(h, p, NoObj) EXCEPT !.strong[p] = @ \o <<c1, c2>>]),
             [op |-> "link_many", p |-> p, c1 |-> c1, c2 |-> c2])

\* one child-only forward barrier, then adoption by several parents in the same callback
LinkByManyA ==
  /\ WithMany
  /\ \E c \in A, p1 \in Hd, p2 \in Hd :
       /\ p1 # p2 /\ h.kind[p1] \in {"N", "F"} /\ h.kind[p2] \in {"N", "F"}
       /\ c \notin Kids(h, p1) /\ c \notin Kids(h, p2) /\ HasRoom(h, p1) /\ HasRoom(h, p2)
       /\ Do(Mut([Forward(h, NoObj, c) EXCEPT !.strong[p1] = Append(@, c), !.strong[p2] = Append(@, c)]),
             [op |-> "link_by_many", c |-> c, p1 |-> p1, p2 |-> p2])

\* ---------------------------------------------------------------- dynamic roots (C14)
FreeHandles == {i \in 1..MaxHandles : h.handles[i] = NoHandle}
UsedHandles == {i \in 1..MaxHandles : h.handles[i] # NoHandle}
NewSetA ==
  /\ MaxHandles > 0 /\ Len(h.rootD) < 2
  /\ \E o \in FreeIds(h) : Do(NewSet(h, o), [op |-> "new_set", o |-> o])
RemoveSetA ==
  \E d \in Range(h.rootD) : Do(RemoveSet(h, d), [op |-> "remove_set", d |-> d])
StashA ==
  \E d \in Range(h.rootD), c \in A, hid \in FreeHandles :
    /\ h.kind[c] = "N" /\ hid = CHOOSE x \in FreeHandles : \A y \in FreeHandles : x <= y
    /\ Do(Stash(h, d, c, hid), [op |-> "stash", d |-> d, c |-> c, hid |-> hid])
\* handles live outside the arena: these two are enabled in every phase, also after the arena is gone
CloneHandleA ==
  \E hid \in UsedHandles, hid2 \in FreeHandles :
    /\ hid2 = CHOOSE x \in FreeHandles : \A y \in FreeHandles : x <= y
    /\ Do(CloneHandle(h, hid, hid2), [op |-> "clone_handle", hid |-> hid, hid2 |-> hid2])
DropHandleA ==
  \E hid \in UsedHandles : Do(DropHandle(h, hid), [op |-> "drop_handle", hid |-> hid])
DynMutator == NewSetA \/ RemoveSetA \/ StashA
HandleOps == CloneHandleA \/ DropHandleA

\* ---------------------------------------------------------------- collector
CallA ==
  \/ \E kind \in {"finish_marking", "finish_cycle"} :
       Do(Call(h, kind, 0, "P1", FALSE), [op |-> "call", kind |-> kind, b |-> 0, g |-> "P1", cont |-> FALSE])
  \/ /\ WithDebtCalls
     \* (cont: the pacing under which a collector that has finished its cycle still owes debt; mark_debt and
     \* cycle_debt stop where they are documented to stop all the same)
     /\ \E kind \in {"mark_debt", "cycle_debt"}, b \in Budgets \cup {0}, g \in Grans :
          \E cont \in (IF b = 0 THEN {FALSE} ELSE BOOLEAN) :
            Do(Call(h, kind, b, g, cont), [op |-> "call", kind |-> kind, b |-> b, g |-> g, cont |-> cont])
  \/ /\ WithDebtCalls
     /\ \E b \in Budgets \cup {0}, g \in Grans, cont \in BOOLEAN :
          Do(Call(h, "collect_debt", b, g, cont), [op |-> "call", kind |-> "collect_debt", b |-> b, g |-> g, cont |-> cont])

\* a collection call during which the k-th Collect::trace invocation panics (C11)
FaultPos == 0..MaxKids \cup {AllPos}
CallFaultA ==
  \E at \in FaultAts, pos \in FaultPos :
    LET f == [at |-> at, pos |-> pos, dat |-> -1] IN
    \/ \E kind \in {"finish_marking", "finish_cycle"} :
         Do(CallF(h, kind, 0, "P1", FALSE, f),
            [op |-> "call", kind |-> kind, b |-> 0, g |-> "P1", cont |-> FALSE, fault |-> f])
    \/ \E kind \in {"mark_debt", "collect_debt"}, b \in Budgets, g \in Grans :
         Do(CallF(h, kind, b, g, FALSE, f),
            [op |-> "call", kind |-> kind, b |-> b, g |-> g, cont |-> FALSE, fault |-> f])

\* a collection call (or the arena's drop) during which the k-th user destructor panics.  Not one of the
\* faults C11 lists, but the crate takes care of it (the order of set_live and drop_in_place in sweep_one,
\* the resuming guard in Drop for Context), and "destructed exactly once" (C04), "is_dropped is exact"
\* (C05) speak about every history.
CallDFaultA ==
  \E dat \in DFaultAts :
    LET f == [at |-> -1, pos |-> 0, dat |-> dat] IN
    \/ Do(CallF(h, "finish_cycle", 0, "P1", FALSE, f),
          [op |-> "call", kind |-> "finish_cycle", b |-> 0, g |-> "P1", cont |-> FALSE, fault |-> f])
    \/ /\ WithDebtCalls
       /\ \E kind \in {"cycle_debt", "collect_debt"}, b \in Budgets :
            Do(CallF(h, kind, b, "P1", FALSE, f),
               [op |-> "call", kind |-> kind, b |-> b, g |-> "P1", cont |-> FALSE, fault |-> f])
    \/ /\ WithDrop
       /\ Do(DropAllF(h, dat), [op |-> "drop_arena", dat |-> dat])

\* a callback that panics after its last step: the arena stays as the callback left it, except
\* that map_root / try_map_root consume the arena (everything is dropped during the unwind)
PanicCbA ==
  /\ FaultAts # {}
  /\ \/ \E o \in FreeIds(h), k \in Kinds :
          Do(AllocTemp(h, o, k), [op |-> "alloc_temp", o |-> o, k |-> k, panic |-> TRUE])
     \/ /\ Len(h.rootS) < MaxKids
        /\ \E o \in FreeIds(h), k \in Kinds, via \in RootViaSet :
             Do(IF via = "mutate_root" THEN AllocRoot(h, o, k) ELSE DropAll(h),
                [op |-> "alloc_root", o |-> o, k |-> k, via |-> via, panic |-> TRUE])
     \/ \E p \in Hd, c \in A :
          /\ c \notin Kids(h, p) /\ HasRoom(h, p) /\ h.kind[p] = "N"
          /\ Do(Link(h, p, c, "borrow_mut"), [op |-> "link", p |-> p, c |-> c, path |-> "borrow_mut", panic |-> TRUE])
     \/ \* try_map_root whose callback returns Err: the arena is dropped
        /\ "try_map_root" \in RootViaSet
        /\ Do(DropAll(h), [op |-> "failed_map_root"])
     \/ \* Arena::new / try_new whose callback allocates n objects and then fails: another,
        \* short-lived arena; this one is not affected
        \* (mode "rootless": arena::rootless_mutate, a context without a root that lives for one callback)
        \E n \in 0..2, mode \in {"panic", "err", "rootless"} : Do(h, [op |-> "failed_new", n |-> n, mode |-> mode])

\* finish_marking().unwrap().start_sweeping()
StartSweepingA ==
  /\ h.phase # "Sweep" /\ h.leaked = {}
  /\ Do(Call(FinishMarking(h), "start_sweeping", 0, "P1", FALSE), [op |-> "start_sweeping"])

\* finish_marking().unwrap().finalize(|fc, root| resurrect t)
FinalizeA ==
  /\ WithFinalize
  /\ h.phase # "Sweep" /\ h.leaked = {}
  /\ LET s1 == FinishMarking(h) IN
     \E t \in Ordinary(s1) \cup {NoObj} :
       Do(Finalize(s1, t), [op |-> "finalize", t |-> t])

\* mem::forget(p.borrow_mut(mc)) on a Gc<RefLock<_>>: safe code.  From now on p can be neither read
\* nor written, and RefLock::trace panics (it must not skip the object: its pointers are still there).
LeakA ==
  /\ WithLeak
  /\ \E p \in Hd : h.kind[p] = "N" /\ Do(Leak(h, p), [op |-> "leak", p |-> p])

DropArenaA == WithDrop /\ Do(DropAll(h), [op |-> "drop_arena"])

Mutator == \/ AllocRootA \/ AllocIntoA \/ AllocTempA \/ LinkA \/ RootRemoveA
           \/ (WithUnlink /\ (UnlinkA \/ RootAddA))
           \/ (WithWeak /\ (WLinkA \/ WUnlinkA \/ RootWAddA \/ RootWRemoveA \/ UpgradeStoreA \/ WCopyA))
           \/ BarrierOnlyA \/ LinkManyA \/ LinkByManyA \/ PanicCbA \/ LeakA
Collector == CallA \/ StartSweepingA \/ FinalizeA \/ CallFaultA \/ CallDFaultA

Next == (Running /\ (Mutator \/ DynMutator \/ Collector \/ DropArenaA)) \/ HandleOps

Spec == Init /\ [][Next]_vars

Bounded == MaxOps = 0 \/ Len(hist) <= MaxOps

-----------------------------------------------------------------------------
(***************************************************************************)
(* Structural invariants: WHY the properties hold.                         *)
(***************************************************************************)
\* the `next` chain from `head` is acyclic and is exactly the set of allocated blocks
ListWF == LET q == ListSeq(h) IN
  /\ Len(q) = Cardinality(Range(q))
  /\ Range(q) = {o \in Obj : h.alive[o]}
  /\ \A o \in Obj : h.live[o] => h.alive[o]

\* In Sweep, the cursor is a list member (or the end) and sweep_prev is its list predecessor;
\* outside Sweep both are null.
CursorWF == LET q == ListSeq(h) IN
  IF h.phase = "Sweep"
  THEN /\ h.sweep = NoObj \/ h.sweep \in Range(q)
       /\ LET i == IndexOf(q, h.sweep) IN h.sweepPrev = (IF i = 1 THEN NoObj ELSE q[i - 1])
  ELSE h.sweep = NoObj /\ h.sweepPrev = NoObj

\* gray <=> queued, exactly once; queues are empty outside Mark
GrayQ == LET q == h.gray \o h.grayAgain IN
  /\ Len(q) = Cardinality(Range(q))
  /\ \A o \in Obj : (h.alive[o] /\ h.color[o] = "G") <=> o \in Range(q)
  /\ \A o \in Range(q) : h.live[o]
  /\ h.phase # "Mark" => q = <<>>

\* the tri-colour invariant, including the root's clause and the weak clause
TriColour ==
  InMark(h) =>
    /\ \A o \in Obj : h.alive[o] /\ h.live[o] /\ h.color[o] = "B" =>
         /\ \A c \in Kids(h, o) : h.color[c] \notin {"W", "WW"}
         /\ \A t \in h.weak[o] : h.color[t] # "W"
    /\ ~h.rootNT =>
         /\ \A c \in Range(h.rootS) : h.color[c] \notin {"W", "WW"}
         /\ \A t \in h.rootW : h.color[t] # "W"

\* what the sweep relies on: in the region it has not visited yet, everything the mutator can
\* reach is black, every weak pointer the mutator can look at targets black or white-weak, and
\* everything outside that region is white.
SweepRegion ==
  h.phase = "Sweep" =>
    LET U == Unswept(h) IN
    /\ \A o \in Acc(h) \cap U : h.color[o] = "B"
    /\ \A e \in WeakEdges(h) : e[2] \in U => h.color[e[2]] \in {"B", "WW"}
    /\ \A o \in Obj : h.alive[o] /\ o \notin U => h.color[o] = "W"
    /\ \A o \in U : h.color[o] # "G"

AsleepAllWhite == h.phase = "Sleep" => /\ \A o \in Obj : h.alive[o] => h.color[o] = "W"
                                       /\ h.rootNT

NoFault == ~h.fault

Structural == ListWF /\ CursorWF /\ GrayQ /\ TriColour /\ SweepRegion /\ AsleepAllWhite /\ NoFault

-----------------------------------------------------------------------------
(***************************************************************************)
(* Property-level invariants (named after the property they decide).       *)
(***************************************************************************)
C01_NoLostReachable == \A o \in Reach(h) : h.alive[o] /\ h.live[o]

\* everything a callback can get hold of is a live value (C01 consequence, C03, C05 upgrade safety)
AccSafe == \A o \in Acc(h) : h.alive[o] /\ h.live[o]

\* "from any state, two consecutive finish_cycle calls with no mutation in between ..."
\* (a full collection that RETURNS: while a RefLock frozen by a leaked RefMut exists, tracing panics)
C02_Exact ==
  Running /\ {o \in h.leaked : h.alive[o]} = {} =>
    LET s2 == FinishCycle(FinishCycle(h)) IN
    /\ {o \in Obj : s2.live[o]} = Reach(h)
    /\ {o \in Obj : s2.alive[o] /\ ~s2.live[o]} \subseteq WeakTargetsOfReachable(h)
    /\ s2.phase = "Sleep"
    /\ ~s2.fault

\* dropping the arena from any state destructs exactly the live values, releases exactly the blocks
C04_DropAll ==
  Running => LET s2 == DropAll(h) IN \A o \in Obj : ~s2.alive[o] /\ ~s2.live[o]

\* every weak pointer a callback can look at refers to a block that is still allocated
C05_WeakBlock == \A e \in WeakEdges(h) : h.alive[e[2]]
\* upgrade always succeeds for a strongly reachable target
C05_UpgradeComplete == \A t \in Reach(h) : CanUpgrade(h, t)
\* an upgradeable target will not be destructed by the running sweep
C05_UpgradeSound ==
  \A e \in WeakEdges(h) : CanUpgrade(h, e[2]) /\ e[2] \in Unswept(h) => h.color[e[2]] = "B"
\* a weak pointer does not keep its target alive: covered by C02_Exact (Reach ignores weak edges)

Marked == h.phase = "Mark" /\ ~GrayRemaining(h)
IsDead(s, o) == s.color[o] \in {"W", "WW"}
C07_NoDeadReachable == Marked => \A o \in Reach(h) : ~IsDead(h, o)
C07_DeadExact ==
  Marked /\ ~h.mutSinceWake /\ h.resurrected = {} =>
    \A o \in Obj : h.alive[o] => (IsDead(h, o) <=> o \notin Reach(h))
C07_ResurrectHolds ==
  \A t \in h.resurrected : \A o \in ReachFrom(h, {t}) : h.alive[o] /\ h.live[o]

\* C14 -- structure of the slot tables
RECURSIVE FreeChain(_, _, _)
FreeChain(sl, i, n) == IF i = 0 \/ n = 0 THEN <<>> ELSE <<i>> \o FreeChain(sl, sl[i].nf, n - 1)
HandlesOn(d, i) == {k \in 1..MaxHandles : h.handles[k].set = d /\ h.handles[k].gen = h.gen[d] /\ h.handles[k].idx = i}
C14_SlotsWF ==
  \A d \in Obj : h.live[d] /\ h.kind[d] = "D" =>
    LET sl == h.slots[d]  fc == FreeChain(sl, h.freeHead[d], Len(sl) + 1) IN
    /\ Len(fc) = Cardinality(Range(fc))                                   \* the free list is acyclic ...
    /\ Range(fc) = {i \in DOMAIN sl : ~sl[i].occ}                         \* ... and is exactly the vacant slots
    /\ \A i \in DOMAIN sl : sl[i].occ => sl[i].rc + 1 = Cardinality(HandlesOn(d, i))   \* refcount = handles - 1
    /\ \A i \in DOMAIN sl : ~sl[i].occ => HandlesOn(d, i) = {}
    /\ h.strong[d] = DerivedKids(sl)
\* slot reuse never changes what a live handle resolves to
C14_HandleResolves ==
  \A k \in 1..MaxHandles : LET hd == h.handles[k] IN
    HandleValid(h, hd) => h.slots[hd.set][hd.idx].occ /\ h.slots[hd.set][hd.idx].obj = hd.obj
\* a stashed object, and everything reachable from it, lives while a handle for it exists and
\* its set is reachable from the root
C14_KeepsAlive ==
  \A k \in 1..MaxHandles : LET hd == h.handles[k] IN
    HandleValid(h, hd) /\ hd.set \in Reach(h) =>
      \A o \in ReachFrom(h, {hd.obj}) : h.alive[o] /\ h.live[o]
\* ("collectable once the last handle is dropped" is C02_Exact: Reach no longer contains it)
C14_Invs == C14_SlotsWF /\ C14_HandleResolves /\ C14_KeepsAlive

PropertyInvs == /\ C01_NoLostReachable /\ C14_Invs /\ AccSafe /\ C02_Exact /\ C04_DropAll
                /\ C05_WeakBlock /\ C05_UpgradeComplete /\ C05_UpgradeSound
                /\ C07_NoDeadReachable /\ C07_DeadExact /\ C07_ResurrectHolds

-----------------------------------------------------------------------------
(***************************************************************************)
(* Action properties.                                                      *)
(***************************************************************************)
LastOp == hist'[Len(hist')]
IsMutatorStep == hist' # hist /\ LastOp.op \notin {"call", "start_sweeping", "finalize", "drop_arena", "failed_map_root", "failed_new"}
                                /\ h.phase # "Dropped"
                                /\ h'.phase # "Dropped"

\* C03: a callback never destructs or releases anything, and never changes the phase except
\* Marked -> Marking (C08)
C03_MutatorFrame ==
  [][IsMutatorStep =>
       /\ \A o \in Obj : h.alive[o] => (h'.alive[o] /\ h'.live[o] = h.live[o])
       /\ h'.phase = h.phase /\ h'.sweep = h.sweep
       /\ (ObsPhase(h') = ObsPhase(h) \/ (ObsPhase(h) = "Marked" /\ ObsPhase(h') = "Marking"))]_vars

\* C06: a barrier changes nothing but collector bookkeeping
C06_BookkeepingOnly ==
  [][hist' # hist /\ LastOp.op = "barrier" =>
       /\ h'.alive = h.alive /\ h'.live = h.live /\ h'.strong = h.strong /\ h'.weak = h.weak
       /\ h'.rootS = h.rootS /\ h'.rootW = h.rootW /\ h'.head = h.head /\ h'.next = h.next
       /\ h'.phase = h.phase /\ h'.sweep = h.sweep /\ h'.sweepPrev = h.sweepPrev]_vars

\* C08: the phase protocol, per entry point, over the OBSERVABLE phase
PhaseOK(kind, before, after) ==
  CASE kind \in {"mark_debt", "finish_marking"} ->
         IF before = "Sweeping" THEN after = "Sweeping"
         ELSE IF before = "Marked" THEN after = "Marked"
         ELSE IF kind = "finish_marking" THEN after = "Marked"
         ELSE after \in {before, "Marking", "Marked"}
    [] kind = "finish_cycle" -> after = "Sleeping"
    [] kind = "cycle_debt" ->
         (CASE before \in {"Sleeping", "Marking"} -> TRUE
            [] before = "Marked"   -> after \in {"Marked", "Sweeping", "Sleeping"}
            [] before = "Sweeping" -> after \in {"Sweeping", "Sleeping"})
    [] kind = "collect_debt" -> TRUE
    [] OTHER -> TRUE

C08_PhaseProtocol ==
  [][hist' # hist =>
       LET op == LastOp  b == ObsPhase(h)  a == ObsPhase(h') IN
       \* (calls with an armed trace fault may unwind: the protocol speaks about calls that return)
       \* (so may calls that meet a RefLock frozen by a leaked RefMut)
       /\ op.op = "call" /\ "fault" \notin DOMAIN op /\ h.leaked = {} => PhaseOK(op.kind, b, a)
       /\ op.op = "start_sweeping" => a = "Sweeping"
       /\ op.op = "finalize" => a \in {"Marked", "Marking"}
       \* sweeping begins only from a fully marked arena: a step that enters Sweeping from
       \* outside must pass through Marked, which Loop guarantees; checked structurally by
       \* SweepRegion at the first Sweeping state.
       /\ (op.op = "call" /\ "fault" \notin DOMAIN op /\ h.leaked = {} /\ op.kind \in {"mark_debt", "finish_marking"} /\ b # "Sweeping")
            => (ReturnsMarked(h') <=> a = "Marked")]_vars

-----------------------------------------------------------------------------
(***************************************************************************)
(* Behaviour emitters (spec -> implementation direction).                  *)
(***************************************************************************)
ColorOf(s, o) == s.color[o]
Proj(s) ==
  [ phase |-> s.phase, obs |-> ObsPhase(s), rootNT |-> s.rootNT, count |-> Count(s),
    list  |-> [i \in DOMAIN ListSeq(s) |->
                 LET o == ListSeq(s)[i] IN [o |-> o, c |-> s.color[o], live |-> s.live[o], k |-> s.kind[o]]],
    gray |-> s.gray, grayAgain |-> s.grayAgain, sweep |-> s.sweep, sweepPrev |-> s.sweepPrev,
    reach |-> Reach(s), acc |-> Acc(s) ]

EmitLine(tag) == PrintT(<<tag, ToJson([ops |-> hist, final |-> Proj(h)])>>)

\* one behaviour per distinct state (listed as an INVARIANT; always TRUE)
EmitStates == (Emit = "states" /\ hist # <<>>) \/ (Emit = "walks" /\ Len(hist) = MaxOps) => EmitLine("BEH")

\* listed as ACTION_CONSTRAINT: prints the first behaviour per class and worker; always TRUE
\* Emit = "classes": one witness per class of the LAST transition.  Emit = "pairs": one witness per
\* (class of the previous transition, operation that follows it, whether it touches the same
\* objects) -- so that the CONSEQUENCES of every class of transition are replayed, not only the
\* transition itself.
SameObjs(op1, op2) ==
  LET vals(op, fs) == {op[f] : f \in DOMAIN op \cap fs}
      now == vals(op2, {"p", "c", "t", "o", "d", "c1", "c2", "p1", "p2"})
  IN <<now \cap vals(op1, {"p", "p1", "p2", "d"}) # {},          \* touches the previous operation's holder(s)
       now \cap vals(op1, {"c", "t", "o", "c1", "c2"}) # {}>>    \* touches the previous operation's target(s)
EmitClasses ==
  Emit \in {"classes", "pairs"} =>
    LET cl == IF Emit = "classes" \/ Len(hist) = 0 THEN pcl'
              ELSE <<pcl, LastOp.op, Fld(LastOp, "kind"), SameObjs(hist[Len(hist)], LastOp), ObsPhase(h')>> IN
    IF cl \in TLCGet(7) THEN TRUE
    ELSE /\ TLCSet(7, TLCGet(7) \cup {cl})
         /\ PrintT(<<"BEH", ToJson([ops |-> hist', final |-> Proj(h'), class |-> cl])>>)

InitEmit == Init /\ TLCSet(7, {})
SpecEmit == InitEmit /\ [][Next]_vars

Perms == Permutations(Obj)

=============================================================================
