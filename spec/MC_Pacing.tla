------------------------------ MODULE MC_Pacing ------------------------------
(***************************************************************************)
(* Pacing configurations: the same collector (GcHeap) with the REAL debt   *)
(* arithmetic of src/metrics.rs deciding how far a debt-driven call runs   *)
(* (gran = "real").  All quantities are integers scaled by 16; with dyadic *)
(* pacing factors k/16 the f64 arithmetic of the crate is exact, so the    *)
(* model's DebtQ and the crate's allocation_debt() * 16 must be EQUAL.     *)
(* Decides C09 (pacing contracts) and C10 (metrics are truthful).          *)
(***************************************************************************)
EXTENDS GcHeap, Json

CONSTANTS
  SF, MS, MF, TF, KF, DF, FF,   \* sleep factor, min_sleep, the five work factors (factors in 16ths)
  MaxOps,
  Adjusts,     \* set of artificial debt adjustments (scaled by 16)
  Emit

VARIABLES h, hist, hs

PacingQ == [sf |-> SF, ms |-> MS, mf |-> MF, tf |-> TF, kf |-> KF, df |-> DF, ff |-> FF]

vars == <<h, hist, hs>>
vw == <<h, hs>>

\* history needed to STATE the pacing properties (never read by the collector operators)
HS0 == [ H |-> 0,            \* allocations alive when the running cycle woke
         A |-> 0,            \* allocations made since it woke
         wokeDebt |-> FALSE, \* the debt was positive at the call in which it woke
         negAdj |-> FALSE,   \* an artificial debt reduction happened since it woke
         sleepValid |-> FALSE, \* the last cycle ran atomically from Sleeping (no debt carried over) ...
         sleepT |-> 0,       \* ... and this is max(min_sleep, sleep_factor x survivors) * 16
         lastCall |-> <<>> ] \* <<kind, debt positive at entry, phase before, phase after>> of the last call

Init == h = [EmptyHeap EXCEPT !.pc = PacingQ] /\ hist = <<>> /\ hs = HS0

Running == h.phase # "Dropped"
AccNow == Ordinary(h)
WorkFactorsZero == PacingQ.mf = 0 /\ PacingQ.tf = 0 /\ PacingQ.kf = 0 /\ PacingQ.df = 0 /\ PacingQ.ff = 0
\* the largest per-object work path, in 16ths
R == LET a == PacingQ.mf + PacingQ.tf + PacingQ.kf
         b == PacingQ.df + PacingQ.ff
         c == PacingQ.mf + PacingQ.df + PacingQ.kf
     IN MaxI(a, MaxI(b, c))

Do(s2, op, hs2) == h' = s2 /\ hist' = Append(hist, op @@ [d |-> DebtQ(s2), n |-> Count(s2)]) /\ hs' = hs2

Allocd(x) == [x EXCEPT !.A = IF @ < 9 THEN @ + 1 ELSE @]      \* capped: only compared with small bounds

\* ---------------------------------------------------------------- mutator (never pays debt)
AllocRootA ==
  /\ Len(h.rootS) < MaxKids
  /\ \E o \in FreeIds(h), k \in Kinds :
       Do(AllocRoot(h, o, k), [op |-> "alloc_root", o |-> o, k |-> k, via |-> "mutate_root"], Allocd(hs))
AllocTempA ==
  \E o \in FreeIds(h), k \in Kinds :
    Do(AllocTemp(h, o, k), [op |-> "alloc_temp", o |-> o, k |-> k], Allocd(hs))
AllocIntoA ==
  \E o \in FreeIds(h), k \in Kinds, p \in AccNow :
    /\ HasRoom(h, p) /\ h.kind[p] = "N"
    /\ Do(AllocInto(h, o, k, p, "borrow_mut"), [op |-> "alloc_into", o |-> o, k |-> k, p |-> p, path |-> "borrow_mut"], Allocd(hs))
UnlinkA ==
  \E p \in AccNow : \E c \in Kids(h, p) :
    Do(Unlink(h, p, c, "borrow_mut"), [op |-> "unlink", p |-> p, c |-> c, path |-> "borrow_mut"], hs)
RootRemoveA ==
  \E c \in Range(h.rootS) :
    Do(RootRemove(h, c), [op |-> "root_remove", c |-> c, via |-> "mutate_root"], hs)
RootWAddA ==
  /\ Cardinality(h.rootW) < MaxWeak
  /\ \E t \in AccNow \ h.rootW : Do(RootWAdd(h, t), [op |-> "root_wadd", t |-> t, via |-> "mutate_root"], hs)
\* barriers on objects of tracing and non-tracing types, forward barriers that mark (finding F2)
BarrierA ==
  \E p \in AccNow, c \in AccNow : \E path \in {"borrow_mut", "back_none", "fwd_some", "fwd_none", "fwd_weak_none"} :
    /\ path \in BarrierPaths(h.kind[p])
    /\ Do(BarrierOnly(h, path, p, c), [op |-> "barrier", p |-> p, c |-> c, path |-> path], hs)

AdjustA ==
  \E x \in Adjusts :
    Do(AdjustDebt(h, x), [op |-> "adjust_debt", xQ |-> x],
       [hs EXCEPT !.negAdj = @ \/ x < 0, !.sleepValid = FALSE])

\* ---------------------------------------------------------------- collector, real arithmetic
RECURSIVE FoldSig(_, _, _, _)
\* walk the call's signature and keep the history up to date
FoldSig(sig, x, debtAtEntry, first) ==
  IF sig = <<>> THEN x
  ELSE LET t == Head(sig) IN
       IF t[1] = "wake"
       THEN FoldSig(Tail(sig), [x EXCEPT !.H = t[2], !.A = 0, !.wokeDebt = debtAtEntry, !.negAdj = FALSE,
                                         !.sleepValid = FALSE], debtAtEntry, FALSE)
       ELSE IF t[1] = "end-sweep"
       THEN FoldSig(Tail(sig), [x EXCEPT !.H = 0, !.A = 0, !.wokeDebt = FALSE, !.negAdj = FALSE,
                                         !.sleepValid = t[2]], debtAtEntry, FALSE)
       ELSE FoldSig(Tail(sig), x, debtAtEntry, FALSE)

CallA ==
  \E kind \in {"collect_debt", "cycle_debt", "mark_debt", "finish_marking", "finish_cycle"} :
    LET s2  == Call(h, kind, 0, "real", FALSE)
        sig == CallSig(h, kind, 0, "real", FALSE, NoFaultRec)
        dpos == DebtQ(h) > 0
        x1  == FoldSig(sig, hs, dpos, TRUE)
        \* a cycle that ran atomically from Sleeping and ended the call asleep: the sleep promise
        atomic == h.phase = "Sleep" /\ s2.phase = "Sleep" /\ sig # <<>>
        x2  == [x1 EXCEPT !.sleepValid = atomic /\ x1.sleepValid,
                          !.sleepT = IF atomic THEN MaxI(Count(s2) * PacingQ.sf, 16 * PacingQ.ms) ELSE @,
                          !.lastCall = <<kind, dpos, ObsPhase(h), ObsPhase(s2)>>]
    IN Do(s2, [op |-> "call", kind |-> kind, b |-> 0, g |-> "real", cont |-> FALSE], x2)

StartSweepingA ==
  /\ h.phase # "Sweep"
  /\ LET s2 == Call(FinishMarking(h), "start_sweeping", 0, "real", FALSE)
         sig == CallSig(h, "finish_marking", 0, "real", FALSE, NoFaultRec)
     IN Do(s2, [op |-> "start_sweeping"], [FoldSig(sig, hs, DebtQ(h) > 0, TRUE) EXCEPT !.lastCall = <<>>])

Mutator == AllocRootA \/ AllocTempA \/ AllocIntoA \/ UnlinkA \/ RootRemoveA \/ RootWAddA \/ BarrierA
Next == Running /\ (Mutator \/ AdjustA \/ CallA \/ StartSweepingA)
Spec == Init /\ [][Next]_vars
Bounded == MaxOps = 0 \/ Len(hist) <= MaxOps

-----------------------------------------------------------------------------
LastOp == hist'[Len(hist')]
Stepped == hist' # hist
IsCall(k) == Stepped /\ LastOp.op = "call" /\ LastOp.kind = k

\* C09: collect_debt returns with zero allocation debt
C09_CollectDebtPays == [][IsCall("collect_debt") => DebtQ(h') = 0]_vars
\* C09: cycle_debt / mark_debt return with zero debt or at their documented stopping phase
C09_StopOrPaid ==
  [][/\ IsCall("cycle_debt") => DebtQ(h') = 0 \/ h'.phase = "Sleep"
     /\ IsCall("mark_debt")  => DebtQ(h') = 0 \/ ObsPhase(h') = "Marked" \/ h.phase = "Sweep"]_vars
\* C09: with all work factors zero, collect_debt / cycle_debt called with positive debt do not
\* return until the collector is Sleeping again
C09_StopTheWorld ==
  [][WorkFactorsZero /\ (IsCall("collect_debt") \/ IsCall("cycle_debt")) /\ DebtQ(h) > 0 => h'.phase = "Sleep"]_vars
\* C09: a cycle that woke (with positive debt) with H live allocations is still unfinished after a
\* cycle_debt call only if fewer than rho*H/(1-rho) allocations were made since it woke
C09_RhoBound ==
  [][IsCall("cycle_debt") /\ R < 16 /\ h'.phase # "Sleep" /\ hs'.wokeDebt /\ ~hs'.negAdj
       => hs'.A * (16 - R) < R * hs'.H]_vars
\* C09: after an atomic cycle the collector stays asleep, reporting zero debt, until the allocations
\* since then exceed max(min_sleep, sleep_factor x survivors), and reports positive debt once they do
C09_SleepHonoured ==
  hs.sleepValid /\ h.phase = "Sleep" =>
    IF Count(h) = 0 THEN DebtQ(h) = 0 ELSE (DebtQ(h) > 0 <=> 16 * h.mt.alloc > hs.sleepT)

\* C10: allocation_debt is zero for an arena holding no allocations (and never negative: DebtQ is a max)
C10_ZeroWhenEmpty == Count(h) = 0 => DebtQ(h) = 0
\* C10: it grows by exactly x after adjust_debt(x) while positive
C10_AdjustExact ==
  [][Stepped /\ LastOp.op = "adjust_debt" /\ DebtQ(h) > 0 /\ DebtQ(h') > 0 => DebtQ(h') = DebtQ(h) + LastOp.xQ]_vars
\* C10: it is never decreased by allocation, mutation or write barriers.  Known finding F2: a
\* forward barrier that marks its child is credited mark_factor; that case is carved out BY NAME.
ForwardBarrierMarks == LastOp.op = "barrier" /\ LastOp.path \in {"fwd_some", "fwd_none", "fwd_weak_none"}
                       /\ h'.mt.marked > h.mt.marked
C10_MutatorNeverPays ==
  [][Stepped /\ LastOp.op \notin {"call", "start_sweeping", "adjust_debt"} /\ ~ForwardBarrierMarks
       => DebtQ(h') >= DebtQ(h)]_vars
\* C10: no metric update underflows (a violated guard sets h.fault)
C10_NoCounterFault == ~h.fault
\* C10: total_gc_count is the number of allocations not yet released -- Count(h) by definition in the
\* model; the binding (monitor rule C10.r1) carries the weight.

C01 == \A o \in Reach(h) : h.alive[o] /\ h.live[o]
ListOK == \A o \in Obj : h.live[o] => h.alive[o]
Invs == C09_SleepHonoured /\ C10_ZeroWhenEmpty /\ C10_NoCounterFault /\ C01 /\ ListOK

\* ---------------------------------------------------------------- emitters
EmitLine == PrintT(<<"BEH", ToJson([pacing |-> PacingQ, ops |-> hist, final |-> [obs |-> ObsPhase(h), count |-> Count(h), debtQ |-> DebtQ(h)]])>>)
EmitStates == Emit = "states" /\ hist # <<>> => EmitLine

Perms == Permutations(Obj)
=============================================================================
