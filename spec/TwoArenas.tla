------------------------------ MODULE TwoArenas ------------------------------
(***************************************************************************)
(* C20: two arenas on one thread.  Each arena is an instance of the GcHeap *)
(* record; a step applies one operation of a reduced menu to ONE of them.  *)
(* Independence is the frame condition of this composition and therefore   *)
(* trivially true of the model; the content of the property is that the    *)
(* CODE has no shared state, so this module's job is to enumerate          *)
(* interleavings (including dropping one arena in every phase of the       *)
(* other) which the harness runs on two real arenas, re-observing the      *)
(* OTHER arena after every operation.                                      *)
(***************************************************************************)
EXTENDS GcHeap, Json

CONSTANTS MaxOps, Emit,
  Menu    \* "base": the reduced mutator / collector menu, free interleaving
          \* "dyn" : dynamic root sets and handles; arena 1 starts only after arena 0 was dropped (its handles
          \*         survive it), which is the order in which an allocator hands arena 1 the addresses of arena 0

VARIABLES ha, hb, hist
vars == <<ha, hb, hist>>
vw == <<[ha EXCEPT !.mt = 0, !.pc = 0], [hb EXCEPT !.mt = 0, !.pc = 0]>>

Init == ha = EmptyHeap /\ hb = EmptyHeap /\ hist = <<>>

\* the enabled operations of one arena: a set of <<operation record, successor heap>>
FreeH(h) == {i \in 1..MaxHandles : h.handles[i] = NoHandle}
UsedH(h) == {i \in 1..MaxHandles : h.handles[i] # NoHandle}
DynOps(h) ==
  \* handles live outside the arena: they can be dropped after it is gone
  {<<[op |-> "drop_handle", hid |-> i], DropHandle(h, i)>> : i \in UsedH(h)}
  \cup (IF h.phase = "Dropped" THEN {}
        ELSE LET acc == Acc(h) IN
          {<<[op |-> "new_set", o |-> o], NewSet(h, o)>> : o \in {x \in FreeIds(h) : Len(h.rootD) < 1}}
          \cup {<<[op |-> "alloc_root", o |-> o, k |-> "N", via |-> "mutate_root"], AllocRoot(h, o, "N")>> :
                  o \in {x \in FreeIds(h) : Len(h.rootS) < MaxKids}}
          \cup {<<[op |-> "stash", d |-> dc[1], c |-> dc[2], hid |-> CHOOSE x \in FreeH(h) : \A y \in FreeH(h) : x <= y],
                   Stash(h, dc[1], dc[2], CHOOSE x \in FreeH(h) : \A y \in FreeH(h) : x <= y)>> :
                  dc \in {x \in Range(h.rootD) \X acc : h.kind[x[2]] = "N" /\ FreeH(h) # {}}}
          \cup {<<[op |-> "root_remove", c |-> c, via |-> "mutate_root"], RootRemove(h, c)>> : c \in Range(h.rootS)}
          \cup {<<[op |-> "call", kind |-> "finish_cycle", b |-> 0, g |-> "P1", cont |-> FALSE], Call(h, "finish_cycle", 0, "P1", FALSE)>>}
          \cup {<<[op |-> "drop_arena"], DropAll(h)>>})

Ops(h) ==
  IF Menu = "dyn" THEN DynOps(h)
  ELSE IF h.phase = "Dropped" THEN {}
  ELSE LET acc == Acc(h) IN
    {<<[op |-> "alloc_root", o |-> o, k |-> "N", via |-> "mutate_root"], AllocRoot(h, o, "N")>> :
        o \in {x \in FreeIds(h) : Len(h.rootS) < MaxKids}}
    \cup {<<[op |-> "alloc_temp", o |-> o, k |-> "N"], AllocTemp(h, o, "N")>> : o \in FreeIds(h)}
    \cup {<<[op |-> "link", p |-> pc[1], c |-> pc[2], path |-> "borrow_mut"], Link(h, pc[1], pc[2], "borrow_mut")>> :
            pc \in {x \in acc \X acc : x[2] \notin Kids(h, x[1]) /\ HasRoom(h, x[1])}}
    \cup {<<[op |-> "root_remove", c |-> c, via |-> "mutate_root"], RootRemove(h, c)>> : c \in Range(h.rootS)}
    \cup {<<[op |-> "root_wadd", t |-> t, via |-> "mutate_root"], RootWAdd(h, t)>> :
            t \in {x \in acc \ h.rootW : Cardinality(h.rootW) < MaxWeak}}
    \cup {<<[op |-> "call", kind |-> kb[1], b |-> kb[2], g |-> "P1", cont |-> FALSE], Call(h, kb[1], kb[2], "P1", FALSE)>> :
            kb \in ({"collect_debt", "cycle_debt", "mark_debt"} \X Budgets) \cup {<<"finish_marking", 0>>, <<"finish_cycle", 0>>}}
    \cup (IF h.phase # "Sweep"
          THEN {<<[op |-> "start_sweeping"], Call(FinishMarking(h), "start_sweeping", 0, "P1", FALSE)>>} ELSE {})
    \cup {<<[op |-> "drop_arena"], DropAll(h)>>}

\* handle numbers are per heap record in the model and global in the harness: arena 1's are shifted by 10
Tag(op, a) == (IF "hid" \in DOMAIN op THEN [op EXCEPT !.hid = @ + 10 * a] ELSE op) @@ [a |-> a]
Next ==
  \/ \E x \in Ops(ha) : ha' = x[2] /\ hb' = hb /\ hist' = Append(hist, Tag(x[1], 0))
  \/ /\ Menu = "dyn" => ha.phase = "Dropped"
     /\ \E x \in Ops(hb) : hb' = x[2] /\ ha' = ha /\ hist' = Append(hist, Tag(x[1], 1))

Spec == Init /\ [][Next]_vars
Bounded == MaxOps = 0 \/ Len(hist) <= MaxOps

\* the frame condition (C20 at the level of the design)
C20_Frame == [][(ha' # ha => hb' = hb) /\ (hb' # hb => ha' = ha)]_vars
\* each arena keeps its own guarantees
Safe(h) == \A o \in Reach(h) : h.alive[o] /\ h.live[o]
Invs == Safe(ha) /\ Safe(hb) /\ ~ha.fault /\ ~hb.fault

Final(h) == [obs |-> ObsPhase(h), count |-> Count(h)]
EmitStates == Emit = "states" /\ hist # <<>> =>
  PrintT(<<"BEH", ToJson([ops |-> hist, arenas |-> 2, final |-> <<Final(ha), Final(hb)>>])>>)
Perms == Permutations(Obj)
=============================================================================
