------------------------------- MODULE Builder -------------------------------
(***************************************************************************)
(* C18: life cycle of gc-arena's allocation builders (src/gc.rs GcBuilder, *)
(* src/slice.rs GcSliceWithHeaderBuilder / GcSliceWithHeaderSliceBuilder / *)
(* GcSliceBuilder / GcStrBuilder).  One action per API step; the Drop      *)
(* impls are transcribed (GcBuilder::drop = dealloc only; slice builder    *)
(* drop = drop_in_place(header + init_length elements), then dealloc).     *)
(* TLC enumerates every life cycle for n <= MaxLen; each terminal state is *)
(* printed and replayed in the real crate; BuilderTrace validates what was *)
(* observed against Outcome.                                               *)
(***************************************************************************)
EXTENDS Naturals, Integers, Sequences, FiniteSets, TLC, Json

Kinds  == {"gc", "swh", "slice", "str"}
\* element kinds: destructor-logging, zero-sized with destructor, over-aligned with destructor, Copy
EKinds == {"drop", "zst", "align", "copy"}
MaxLen == 4

\* a life cycle as the harness replays it
\*   hdr  header written (always TRUE once a slice / str builder exists: their header is ())
\*   k    number of elements initialised when the life cycle ended
\*   end  "abandon" (builder dropped), "panic" (element constructor k panicked), "complete",
\*        "copy_ok" / "copy_bad" (copy_slice / copy_str with a source of the right / wrong length)
ValidLc(lc) ==
  /\ lc.kind \in Kinds /\ lc.ekind \in EKinds /\ lc.n \in 0..MaxLen /\ lc.k \in 0..lc.n
  /\ CASE lc.kind = "gc" -> lc.n = 0 /\ lc.k = 0 /\ lc.end \in {"abandon", "complete"} /\ lc.ekind \in {"drop", "align", "zst"}
                            /\ lc.hdr = (lc.end = "complete")
       [] lc.kind = "str" -> lc.ekind = "copy" /\ lc.hdr /\ lc.end \in {"abandon", "copy_ok", "copy_bad"}
                             /\ lc.k = (IF lc.end = "copy_ok" THEN lc.n ELSE 0)
       [] OTHER ->
            /\ lc.kind = "slice" => lc.hdr
            /\ ~lc.hdr => lc.end = "abandon" /\ lc.k = 0
            /\ lc.end = "abandon" => lc.k = 0                 \* init_length only grows inside write_slice_with
            /\ lc.end = "panic" => lc.k < lc.n /\ lc.ekind # "copy"
            /\ lc.end = "complete" => lc.k = lc.n /\ lc.ekind # "copy"
            /\ lc.end \in {"copy_ok", "copy_bad"} => lc.ekind = "copy" /\ lc.hdr
            /\ lc.end = "copy_ok" => lc.k = lc.n
            /\ lc.end = "copy_bad" => lc.k = 0
            /\ lc.end \in {"abandon", "panic", "complete", "copy_ok", "copy_bad"}

Lifecycles == {lc \in [kind : Kinds, ekind : EKinds, n : 0..MaxLen, hdr : BOOLEAN, k : 0..MaxLen,
                       end : {"abandon", "panic", "complete", "copy_ok", "copy_bad"}] : ValidLc(lc)}

\* parts with a destructor: HPart (header of swh; the value of a gc builder), element indices 0..
HPart == -1
HasDtorE(lc) == lc.ekind \in {"drop", "zst", "align"}
Completed(lc) == lc.end \in {"complete", "copy_ok"}

\* ---------------------------------------------------------------- what must be observed
Outcome(l) ==
  [ linked   |-> Completed(l),
    released |-> ~Completed(l),                          \* by the builder; a completed value is released by a later collection
    count_delta |-> IF Completed(l) THEN 1 ELSE 0,
    \* parts destructed by abandoning: exactly the initialised ones
    dropped_h |-> ~Completed(l) /\ l.kind = "swh" /\ l.hdr,
    dropped_elems |-> IF ~Completed(l) /\ HasDtorE(l) /\ l.kind # "gc" THEN l.k ELSE 0,
    \* parts destructed when the completed value is later collected
    \* (the value of a sized GcBuilder counts as its single element)
    final_h |-> Completed(l) /\ l.kind = "swh",
    final_elems |-> IF Completed(l) /\ HasDtorE(l) THEN (IF l.kind = "gc" THEN 1 ELSE l.n) ELSE 0 ]

=============================================================================
