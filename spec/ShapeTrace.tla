------------------------------ MODULE ShapeTrace ------------------------------
(***************************************************************************)
(* C15 / C16, implementation -> specification: each record is a shape of   *)
(* TraceShape.tla (as TLC printed it) together with what the generated     *)
(* program observed when it traced a value of that shape.                  *)
(***************************************************************************)
EXTENDS TraceShape, IOUtils

Rec == ndJsonDeserialize(IOEnv.TRACE)

VARIABLES i, viol, n15, n16
tvars == <<i, viol, n15, n16>>

Range(f) == {f[x] : x \in DOMAIN f}
\* rebuild the shape record exactly as the specification defines it (sets come back as sequences)
ShapeOf(s) ==
  CASE s.kind = "container" -> [kind |-> "container", name |-> s.name, leaves |-> s.leaves, n |-> s.n]
    [] s.kind = "tuple"  -> [kind |-> "tuple", arity |-> s.arity, pos |-> s.pos, leaf |-> s.leaf]
    [] s.kind = "struct" -> [kind |-> "struct", style |-> s.style, fields |-> s.fields, rs |-> Range(s.rs), generic |-> s.generic]
    [] s.kind = "enum"   -> [kind |-> "enum", a |-> s.a, b |-> s.b, c |-> s.c, active |-> s.active, rs |-> Range(s.rs), generic |-> s.generic]

PropOf(s) == IF s.kind \in {"struct", "enum"} THEN "C15" ELSE "C16"

Broken(r) ==
  LET sh == ShapeOf(r.shape)  e == Expect(sh)  o == r.obs IN
  \* r1: every contained Gc is reported as strong and every GcWeak as weak -- the counts the law
  \*     demands, and exactly the pointers that were put in (no other, none twice)
  (IF o.strong = e.strong /\ o.weak = e.weak /\ o.sets_ok THEN {} ELSE {"r1"})
  \* r2: NEEDS_TRACE is true exactly when some traced parameter / field type's is
  \cup (IF o.needs_trace = e.needs_trace THEN {} ELSE {"r2"})
  \* (binding sanity: the generator put in what the law counts, unless the type needs no tracing)
  \cup (IF sh \in Shapes THEN {} ELSE {"tool-shape"})

TInit == i = 1 /\ viol = {} /\ n15 = 0 /\ n16 = 0
TNext ==
  \/ /\ i <= Len(Rec)
     /\ LET r == Rec[i] IN
        /\ viol' = viol \cup {<<PropOf(r.shape), rule, i>> : rule \in Broken(r)}
        /\ n15' = n15 + (IF PropOf(r.shape) = "C15" THEN 1 ELSE 0)
        /\ n16' = n16 + (IF PropOf(r.shape) = "C16" THEN 1 ELSE 0)
     /\ i' = i + 1
  \/ /\ i = Len(Rec) + 1
     /\ PrintT(<<"VERDICT", ToJson([events |-> Len(Rec), viol |-> viol, c15 |-> n15, c16 |-> n16,
                                   points |-> Cardinality(Shapes)])>>)
     /\ i' = i + 1 /\ UNCHANGED <<viol, n15, n16>>
TSpec == TInit /\ [][TNext]_tvars
Accepted == TLCGet("stats").diameter = Len(Rec) + 2
=============================================================================
