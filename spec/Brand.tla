-------------------------------- MODULE Brand --------------------------------
(***************************************************************************)
(* C12: brand isolation.  A pointer (or context reference) branded by the  *)
(* 'gc lifetime of a callback of arena A may only ever be in the frame of  *)
(* that callback, in A's root, or (as a 'static DynamicRoot) in a handle.  *)
(* Every other place is an ESCAPE: an outer local that outlives the        *)
(* callback, the callback's return value, a static / thread-local, another *)
(* thread, or the frame / root of another arena B.                         *)
(*                                                                         *)
(* The API offers MOVES between places; each is guarded by FACTS about the *)
(* crate (variance of the branded types, their auto traits, whether each   *)
(* entry point takes a higher-ranked callback whose result type cannot     *)
(* name the brand, which Collect impls demand 'static, whether fetch       *)
(* checks the set's identity) that compile probes measure.  TLC checks     *)
(* NoEscape over all move sequences for the measured facts; a flipped fact *)
(* yields an escape recipe, possibly several moves long.                   *)
(***************************************************************************)
EXTENDS Naturals, Sequences, FiniteSets, TLC, Json

CONSTANTS
  Covariant,        \* some branded type lets 'gc be shortened  (Gc<'long> -> Gc<'short>)
  Contravariant,    \* some branded type lets 'gc be lengthened (Gc<'short> -> Gc<'long>, up to 'static)
  SendOrSync,       \* some branded type or Arena is Send or Sync
  HigherRanked,     \* every entry point demands for<'gc> FnOnce(&'gc Mutation<'gc>, ..)
  RetNamesBrand,    \* some entry point's result type may mention 'gc
  RefCollect,       \* &'gc T / Cell<Gc> / RefCell<Gc> / Static<Gc> can be part of a root (Collect without 'static)
  FetchUnchecked,   \* DynamicRootSet::fetch accepts a handle of another set / arena
  SlotCovariant     \* a WRITABLE slot type (GcBuilder and the slice / str builders) is covariant in its value type

\* "heapRef": a plain reference &'gc T (from Gc::as_ref) stored INSIDE the arena's heap, where the collector does
\* not see it: it outlives the callback that produced it and dangles when its referent is collected
Places == {"frameA", "rootA", "handle", "outer", "ret", "static", "thread", "frameB", "rootB", "heapRef"}
Legit  == {"frameA", "rootA", "handle"}

VARIABLES at, recipe
vars == <<at, recipe>>
Init == at = {"frameA"} /\ recipe = <<>>

Move(from, to, name) == from \in at /\ at' = at \cup {to} /\ recipe' = Append(recipe, name)

\* sanctioned moves
StoreRoot == Move("frameA", "rootA", "store in root")
ReadRoot  == Move("rootA", "frameA", "read from root in a later callback")
Stash     == Move("frameA", "handle", "DynamicRootSet::stash")
FetchSame == Move("handle", "frameA", "fetch (same set)")

\* escapes and their guards
\* a closure that is not higher-ranked can be instantiated at a caller-chosen lifetime: captured
\* variables and results may then carry the brand
CaptureAssign == (~HigherRanked \/ Contravariant) /\ Move("frameA", "outer", "assign to a captured outer variable")
Return        == (~HigherRanked \/ RetNamesBrand \/ Contravariant) /\ Move("frameA", "ret", "return from the callback")
\* 'static storage needs Gc<'static>: lengthening the brand
StoreStatic   == Contravariant /\ Move("frameA", "static", "store in a static / thread_local")
\* another thread needs Send and 'static
SendAway      == SendOrSync /\ (Contravariant \/ ~HigherRanked) /\ Move("frameA", "thread", "move to another thread")
\* another arena: the two brands must be made equal.  With covariance both shorten to a common lifetime when the
\* callbacks nest; with contravariance either lengthens; without higher-ranked callbacks the caller picks one
\* lifetime for both.
PassOther     == (Covariant \/ Contravariant \/ ~HigherRanked) /\ Move("frameA", "frameB", "use inside another arena's callback")
StoreOther    == Move("frameB", "rootB", "store in the other arena's root")
FetchOther    == FetchUnchecked /\ Move("handle", "frameB", "fetch through another arena's set")
\* a reference / cell that the collector cannot see, kept in the root: it dangles after the next collection,
\* i.e. the pointer has outlived the callbacks in which it was valid
RootRef       == RefCollect /\ Move("frameA", "outer", "keep &'gc T / Cell<Gc> / Static<Gc> inside the root")
\* a writable slot that is covariant in its value type: a slot made for Static<&'static X> (Collect because 'static)
\* shrinks to a slot for Static<&'gc X>, is unwrapped and filled with a Gc::as_ref reference
ShrinkSlot    == SlotCovariant /\ Move("frameA", "heapRef", "shrink a builder for &'static X, write a &'gc X into it, keep the Gc in the root")
\* once outside, everything is possible
Leak          == \E p \in {"outer", "ret"} : p \in at /\
                   \E q \in {"static", "thread", "frameB"} : at' = at \cup {q} /\ recipe' = Append(recipe, "use the escaped value") 

Next == StoreRoot \/ ReadRoot \/ Stash \/ FetchSame \/ CaptureAssign \/ Return \/ StoreStatic \/ SendAway
        \/ PassOther \/ StoreOther \/ FetchOther \/ RootRef \/ ShrinkSlot \/ Leak
Spec == Init /\ [][Next]_vars

NoEscape == at \subseteq Legit
Bounded == Len(recipe) <= 4
=============================================================================
