----------------------------- MODULE MC_Builder -----------------------------
(* The builder life cycle as a state machine (one action per API step, Drop impls transcribed);
   TLC walks every life cycle of Builder!Lifecycles, checks that its terminal state agrees with
   Builder!Outcome, and prints it for the harness. *)
EXTENDS Builder

\* ---------------------------------------------------------------- the state machine
VARIABLES lc,       \* the life cycle being walked
          stage,    \* "new" | "header" | "elems" | "done"
          init,     \* number of elements initialised (init_length)
          hinit,    \* header initialised
          block,    \* the allocation is outstanding
          linked,   \* registered with the arena
          dropped   \* parts destructed by the builder's Drop: subset of {HPart} \cup 0..n-1
vars == <<lc, stage, init, hinit, block, linked, dropped>>

Init == /\ lc \in Lifecycles /\ stage = "new" /\ init = 0 /\ hinit = FALSE /\ block = TRUE
        /\ linked = FALSE /\ dropped = {}

\* Drop for the builder at the current stage
BuilderDrop ==
  LET parts == IF lc.kind = "gc" \/ stage = "new" THEN {}      \* GcBuilder / header builder: dealloc only
               ELSE (IF hinit /\ lc.kind = "swh" THEN {HPart} ELSE {}) \cup (IF HasDtorE(lc) THEN 0..(init - 1) ELSE {})
  IN dropped' = parts /\ block' = FALSE /\ stage' = "done" /\ UNCHANGED <<lc, init, hinit, linked>>

WriteHeader == /\ stage = "new" /\ lc.hdr /\ lc.kind # "gc"
               /\ stage' = "header" /\ hinit' = TRUE /\ UNCHANGED <<lc, init, block, linked, dropped>>
\* slice / str builders write their () header inside `new`
StartElems == /\ stage = "header" /\ lc.end # "abandon" /\ stage' = "elems"
              /\ UNCHANGED <<lc, init, hinit, block, linked, dropped>>
WriteElem == /\ stage = "elems" /\ lc.end \in {"panic", "complete"} /\ init < lc.k
             /\ init' = init + 1 /\ UNCHANGED <<lc, stage, hinit, block, linked, dropped>>
ElemPanics == /\ stage = "elems" /\ lc.end = "panic" /\ init = lc.k /\ BuilderDrop
CopyBad == /\ stage = "elems" /\ lc.end = "copy_bad" /\ BuilderDrop            \* the length assert unwinds
CopyOk == /\ stage = "elems" /\ lc.end = "copy_ok"
          /\ init' = lc.n /\ linked' = TRUE /\ stage' = "done" /\ UNCHANGED <<lc, hinit, block, dropped>>
Complete == /\ \/ (stage = "elems" /\ lc.end = "complete" /\ init = lc.n)
               \/ (stage = "new" /\ lc.kind = "gc" /\ lc.end = "complete")
            /\ linked' = TRUE /\ stage' = "done"
            /\ hinit' = (hinit \/ lc.kind = "gc") /\ UNCHANGED <<lc, init, block, dropped>>
Abandon == /\ lc.end = "abandon" /\ stage \in {"new", "header"}
           /\ (stage = "new" => ~lc.hdr \/ lc.kind = "gc")
           /\ BuilderDrop

Next == WriteHeader \/ StartElems \/ WriteElem \/ ElemPanics \/ CopyBad \/ CopyOk \/ Complete \/ Abandon
Spec == Init /\ [][Next]_vars

\* the property on the model: the state machine's terminal state agrees with Outcome
Done == stage = "done"
Inv ==
  Done => LET o == Outcome(lc) IN
    /\ linked = o.linked /\ block = ~o.released
    /\ (HPart \in dropped) = o.dropped_h
    /\ dropped \ {HPart} = 0..(o.dropped_elems - 1)
    /\ linked => dropped = {}                           \* completing destructs nothing
    /\ ~linked => ~block                                \* abandoning always releases the block
\* (that every life cycle reaches a terminal state is checked by BuilderTrace: no life cycle of
\* the set Lifecycles may be missing from the replayed ones)

Emit == Done => PrintT(<<"BEH", ToJson([lc |-> lc, expect |-> Outcome(lc)])>>)
=============================================================================
