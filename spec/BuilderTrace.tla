---------------------------- MODULE BuilderTrace ----------------------------
(***************************************************************************)
(* C18, implementation -> specification: each record is one builder life   *)
(* cycle of Builder.tla replayed in the real crate.                        *)
(***************************************************************************)
EXTENDS Builder, IOUtils

Rec == ndJsonDeserialize(IOEnv.TRACE)

VARIABLES i, viol, seen
tvars == <<i, viol, seen>>

LcOf(r) == [kind |-> r.lc.kind, ekind |-> r.lc.ekind, n |-> r.lc.n, hdr |-> r.lc.hdr, k |-> r.lc.k, end |-> r.lc.end]
B2N(b) == IF b THEN 1 ELSE 0

Broken(r) ==
  LET l == LcOf(r)  e == Outcome(l)  o == r.obs IN
  (IF ~r.supported \/ ~o.tracked THEN {"tool-unsupported"} ELSE {})
  \cup (IF r.supported /\ o.tracked THEN
    \* r1: the builder never becomes visible unless completed; completing registers exactly one allocation
    (IF o.linked = e.linked /\ o.count_delta = e.count_delta
        /\ (IF e.linked THEN o.debt_grew_by_one ELSE o.debt_unchanged) THEN {} ELSE {"r1"})
    \* r2: an abandoned builder releases its memory (once, with the requested layout); a completed one does not
    \cup (IF o.released = e.released /\ o.release_ok THEN {} ELSE {"r2"})
    \* r3: abandoning destructs exactly the parts already initialised: the header and the element prefix
    \cup (IF o.dropped_h = B2N(e.dropped_h) /\ o.dropped_elems = e.dropped_elems /\ o.dropped_unique /\ o.dropped_prefix
          THEN {} ELSE {"r3"})
    \* r4: no collection ever visits an abandoned allocation; a kept value is not touched while rooted
    \cup (IF o.visited_while_kept = 0 /\ (~e.linked => o.final_h = 0 /\ o.final_elems = 0 /\ o.final_released = 0)
          THEN {} ELSE {"r4"})
    \* r5: a completed value holds what was written and is later destructed part by part, exactly once, and released
    \cup (IF e.linked => o.contents_ok /\ o.final_h = B2N(e.final_h) /\ o.final_elems = e.final_elems /\ o.final_unique
                         /\ o.final_released = 1 /\ o.final_release_ok
          THEN {} ELSE {"r5"})
    \* r6: copy_slice / copy_str reject a source of the wrong length (and r1-r3 say: without leaking);
    \*     an element constructor's panic propagates
    \cup (IF o.panicked = (l.end \in {"copy_bad", "panic"}) THEN {} ELSE {"r6"})
    \cup (IF o.count_final = 0 THEN {} ELSE {"r7"})
  ELSE {})

TInit == i = 1 /\ viol = {} /\ seen = {}
TNext ==
  \/ /\ i <= Len(Rec)
     /\ viol' = viol \cup {<<"C18", rule, i>> : rule \in Broken(Rec[i])}
     /\ seen' = seen \cup {LcOf(Rec[i])}
     /\ i' = i + 1
  \/ /\ i = Len(Rec) + 1
     /\ PrintT(<<"VERDICT", ToJson([events |-> Len(Rec), viol |-> viol, missing |-> Cardinality(Lifecycles \ seen),
                                   points |-> Cardinality(Lifecycles)])>>)
     /\ i' = i + 1 /\ UNCHANGED <<viol, seen>>
TSpec == TInit /\ [][TNext]_tvars
Accepted == TLCGet("stats").diameter = Len(Rec) + 2
=============================================================================
