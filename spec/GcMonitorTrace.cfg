SPECIFICATION TSpec
POSTCONDITION Accepted
CHECK_DEADLOCK FALSE
