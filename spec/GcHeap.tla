------------------------------- MODULE GcHeap -------------------------------
(***************************************************************************)
(* Implementation-shaped specification of gc-arena's collector and of the  *)
(* mutator operations that matter to it (src/context.rs, src/arena.rs,     *)
(* src/gc.rs, src/gc_weak.rs, src/lock.rs, src/dynamic_roots.rs).          *)
(*                                                                         *)
(* The heap is ONE record `s`; every critical section of the code is a     *)
(* pure operator from heap record to heap record, so that the same         *)
(* operator can be used inside an atomic API call (Loop), inside an        *)
(* invariant ("from any state, two finish_cycle calls ...") and by the     *)
(* trace specifications.  An API call is one TLA+ step.                    *)
(***************************************************************************)
EXTENDS Naturals, Integers, Sequences, FiniteSets, TLC

CONSTANTS
  Obj,        \* finite set of object identifiers (model values; reused after release)
  NoObj,      \* "null"
  MaxKids,    \* bound on strong children per object / per root
  MaxWeak,    \* bound on weak targets per holder
  Kinds,      \* subset of {"N","S","L","O"}: RefLock node, static (non-tracing) leaf, Lock cell, OnceLock cell
  Budgets,    \* set of positive budgets for debt-driven calls
  Grans,      \* subset of {"P1","P2"}: which events earn credit (see Spend)
  MaxHandles  \* number of DynamicRoot handles that can exist at once (0: no dynamic roots)

Range(f) == {f[i] : i \in DOMAIN f}
SeqRemove(q, x) == SelectSeq(q, LAMBDA y : y # x)
Last(q) == q[Len(q)]
Front(q) == SubSeq(q, 1, Len(q) - 1)

(***************************************************************************)
(* Static facts about object kinds.                                        *)
(*   N  Gc<RefLock<Node>>      ordered strong children, weak children      *)
(*   S  Gc<RefLock<Static<..>>> NEEDS_TRACE = false, no children           *)
(*   L  Gc<Lock<..>>           at most one strong and one weak child       *)
(*   O  Gc<OnceLock<..>>       at most one strong child, set once          *)
(*   F  Gc<struct {RefLock}>   like N, written through Gc::write + field!  *)
(*   D  DynamicRootSet          strong children derived from its slots     *)
(***************************************************************************)
NeedsTrace(k) == k # "S"
KidCap(k)  == CASE k \in {"N", "F"} -> MaxKids [] k = "S" -> 0 [] k = "L" -> 1 [] k = "O" -> 1 [] k = "D" -> 0
WeakCap(k) == CASE k \in {"N", "F"} -> MaxWeak [] k = "S" -> 0 [] k = "L" -> 1 [] k = "O" -> 0 [] k = "D" -> 0

(***************************************************************************)
(* Barrier paths (C06).  Each path is a distinct call site in the crate;   *)
(* several share one semantic class:                                       *)
(*   bn  backward barrier, parent only        (Context::backward_barrier)  *)
(*   bs  backward barrier, parent and child                                *)
(*   fs  forward barrier, parent and child    (Context::forward_barrier)   *)
(*   fn  forward barrier, child only                                       *)
(*   bw  backward_barrier_weak(parent, child)                              *)
(*   fws / fwn  forward_barrier_weak with / without parent                 *)
(*   raw no barrier at all (legal only when nothing is adopted)            *)
(***************************************************************************)
StrongPaths(k) ==
  CASE k = "N" -> {"borrow_mut", "try_borrow_mut", "write_unlock", "gc_unlock",
                   "back_none", "back_some", "fwd_some", "fwd_none"}
    [] k = "F" -> {"field_unlock", "field_write", "back_none", "back_some", "fwd_some", "fwd_none"}
    [] k = "L" -> {"lock_set", "back_some", "back_none", "fwd_some", "fwd_none"}
    [] k = "O" -> {"once_set", "once_init"}
    [] OTHER   -> {}
WeakPaths(k) ==
  CASE k = "N" -> {"borrow_mut", "write_unlock", "back_none", "back_weak", "fwd_weak_some", "fwd_weak_none"}
    [] k = "F" -> {"field_unlock", "back_weak", "fwd_weak_some", "fwd_weak_none"}
    [] k = "L" -> {"lock_set", "back_weak", "fwd_weak_some", "fwd_weak_none"}
    [] OTHER   -> {}
RemovePaths(k) ==
  CASE k = "N" -> {"borrow_mut", "raw"}
    [] k = "F" -> {"field_unlock", "raw"}
    [] k = "L" -> {"lock_set", "raw"}
    [] OTHER   -> {}
\* barrier calls that are followed by no adoption (also legal on objects that need no tracing)
BarrierPaths(k) ==
  CASE k = "D" -> {}
    [] k = "N" -> {"borrow_mut", "try_borrow_mut", "write_unlock", "gc_unlock", "back_none", "back_some",
                   "fwd_some", "fwd_none", "back_weak", "fwd_weak_some", "fwd_weak_none"}
    [] k = "S" -> {"borrow_mut", "write_unlock", "back_none", "back_some", "back_weak", "fwd_some", "fwd_weak_some"}
    [] k = "F" -> {"field_unlock", "back_none", "fwd_some"}
    [] OTHER   -> {"back_none", "back_some", "fwd_some", "fwd_none", "back_weak", "fwd_weak_some", "fwd_weak_none"}
RootVias == {"mutate_root", "map_root", "try_map_root"}

PathClass(path) ==
  CASE path \in {"borrow_mut", "try_borrow_mut", "write_unlock", "gc_unlock", "back_none",
                 "lock_set", "once_set", "once_init", "field_unlock", "field_write"} -> "bn"
    [] path = "back_some"      -> "bs"
    [] path = "fwd_some"       -> "fs"
    [] path = "fwd_none"       -> "fn"
    [] path = "back_weak"      -> "bw"
    [] path = "fwd_weak_some"  -> "fws"
    [] path = "fwd_weak_none"  -> "fwn"
    [] path = "raw"            -> "raw"

-----------------------------------------------------------------------------
(***************************************************************************)
(* The heap record.                                                        *)
(***************************************************************************)
NoHandle == [set |-> NoObj, gen |-> 0, idx |-> 0, obj |-> NoObj]

EmptyHeap ==
  [ alive     |-> [o \in Obj |-> FALSE],   \* block allocated and linked   (membership in Context.all)
    live      |-> [o \in Obj |-> FALSE],   \* value not yet destructed     (GcHeader::is_live)
    color     |-> [o \in Obj |-> "W"],     \* GcHeader::color
    kind      |-> [o \in Obj |-> "N"],
    strong    |-> [o \in Obj |-> <<>>],    \* ordered strong children held in the value
    weak      |-> [o \in Obj |-> {}],      \* weak targets held in the value
    rootS     |-> <<>>,                    \* strong pointers held by the root
    rootW     |-> {},                      \* weak pointers held by the root
    rootD     |-> <<>>,                    \* DynamicRootSets held by the root (objects of kind "D")
    \* src/dynamic_roots.rs: per set object the slot table, the head of its free list (0 = none),
    \* and a generation that tells this set from a later object with the same identifier
    slots     |-> [o \in Obj |-> <<>>],
    freeHead  |-> [o \in Obj |-> 0],
    gen       |-> [o \in Obj |-> 0],
    nextGen   |-> 1,
    \* the world outside the arena: DynamicRoot handles [set, gen, idx, obj]; they survive the arena
    handles   |-> [i \in 1..MaxHandles |-> NoHandle],
    head      |-> NoObj,                   \* Context.all
    next      |-> [o \in Obj |-> NoObj],   \* GcHeader::next
    sweep     |-> NoObj,                   \* Context.sweep
    sweepPrev |-> NoObj,                   \* Context.sweep_prev
    phase     |-> "Sleep",                 \* Context.phase: Sleep / Mark / Sweep / Dropped
    gray      |-> <<>>,                    \* Context.gray (LIFO)
    grayAgain |-> <<>>,                    \* Context.gray_again (LIFO)
    rootNT    |-> TRUE,                    \* Context.root_needs_trace
    \* history (never read by an operator that models code)
    \* Metrics (src/metrics.rs): the five credit counters, the allocation counter of the cycle,
    \* wake-up amount and artificial debt (both scaled by 16), and the pacing (factors in 16ths)
    mt        |-> [alloc |-> 0, marked |-> 0, traced |-> 0, remembered |-> 0, dropped |-> 0, freed |-> 0,
                   wakeQ |-> 0, artQ |-> 0],
    pc        |-> [sf |-> 8, ms |-> 256, mf |-> 2, tf |-> 6, kf |-> 1, df |-> 3, ff |-> 5],
    mutSinceWake |-> FALSE,                \* a mutator step happened since marking of this cycle began
    resurrected  |-> {},                   \* objects resurrected in this cycle
    lost         |-> 0,                    \* blocks lost to a panicking destructor (unlinked, never released, still counted)
    leaked       |-> {},                   \* RefLock objects whose RefMut was leaked (mem::forget): frozen
    fault        |-> FALSE ]               \* an operator was applied outside its precondition

NT(s, o) == NeedsTrace(s.kind[o])
Count(s) == Cardinality({o \in Obj : s.alive[o]}) + s.lost \* Metrics::total_gc_count
InMark(s) == s.phase = "Mark"

\* Metrics::allocation_debt, times 16
DebtQ(s) ==
  IF Count(s) = 0 THEN 0
  ELSE LET deb == 16 * s.mt.alloc - s.mt.wakeQ + s.mt.artQ IN
       IF deb <= 0 THEN 0
       ELSE LET cred == s.mt.marked * s.pc.mf + s.mt.traced * s.pc.tf + s.mt.remembered * s.pc.kf
                        + s.mt.dropped * s.pc.df + s.mt.freed * s.pc.ff
            IN IF deb - cred > 0 THEN deb - cred ELSE 0
MaxI(a, b) == IF a >= b THEN a ELSE b
\* Metrics::finish_cycle(reset_debt)
FinishCycleM(s, reset) ==
  [s EXCEPT !.mt = [alloc |-> 0, marked |-> 0, traced |-> 0, remembered |-> 0, dropped |-> 0, freed |-> 0,
                    wakeQ |-> MaxI(s.mt.remembered * s.pc.sf, 16 * s.pc.ms),
                    artQ  |-> IF reset THEN 0 ELSE DebtQ(s)]]
\* Metrics::adjust_debt(x/16)
AdjustDebt(s, xQ) == [s EXCEPT !.mt.artQ = @ + xQ]
GrayRemaining(s) == s.gray # <<>> \/ s.grayAgain # <<>> \/ s.rootNT   \* Context::gray_remaining

\* Arena::collection_phase
ObsPhase(s) ==
  CASE s.phase = "Mark"  -> IF GrayRemaining(s) THEN "Marking" ELSE "Marked"
    [] s.phase = "Sweep" -> "Sweeping"
    [] s.phase = "Sleep" -> "Sleeping"
    [] OTHER             -> "Dropped"

-----------------------------------------------------------------------------
(***************************************************************************)
(* Reachability.                                                           *)
(***************************************************************************)
Kids(s, o) == Range(s.strong[o])

RECURSIVE Close(_, _, _)
Close(s, S, n) ==
  IF n = 0 THEN S
  ELSE LET S2 == S \cup UNION {Kids(s, o) : o \in S}
       IN IF S2 = S THEN S ELSE Close(s, S2, n - 1)

\* strongly reachable from the root
Reach(s) == Close(s, Range(s.rootS) \cup Range(s.rootD), Cardinality(Obj))
ReachFrom(s, S) == Close(s, S, Cardinality(Obj))

\* Context::upgrade
CanUpgrade(s, t) == s.live[t] /\ ~(s.phase = "Sweep" /\ s.color[t] = "WW")

\* What a callback can get hold of: the closure of the root under strong edges and under weak
\* edges that upgrade() admits.
RECURSIVE AccClose(_, _, _)
AccClose(s, S, n) ==
  IF n = 0 THEN S
  ELSE LET open == S \ s.leaked     \* a RefLock with a leaked RefMut cannot be borrowed: nothing is read out of it
           S2 == S \cup UNION {Kids(s, o) : o \in open}
                    \cup {t \in UNION {s.weak[o] : o \in open} : CanUpgrade(s, t)}
       IN IF S2 = S THEN S ELSE AccClose(s, S2, n - 1)
Acc(s) == AccClose(s, Range(s.rootS) \cup Range(s.rootD) \cup {t \in s.rootW : CanUpgrade(s, t)}, Cardinality(Obj))
\* ... of which the harness can hold a typed pointer (a DynamicRootSet is not a Gc a client can name)
Ordinary(s) == {o \in Acc(s) : s.kind[o] # "D"}
\* ... and through which it can read or write (not frozen by a leaked RefMut)
Holders(s) == Ordinary(s) \ s.leaked

\* weak pointers a callback can look at (holder is accessible or the root)
WeakEdges(s) == {<<"root", t>> : t \in s.rootW} \cup {<<o, t>> \in Obj \X Obj : o \in Acc(s) \ s.leaked /\ t \in s.weak[o]}
WeakTargetsOfReachable(s) == s.rootW \cup UNION {s.weak[o] : o \in Reach(s)}

\* an identifier may be (re)used only if no existing object or root still mentions it
Stale(s, o) == \/ o \in Range(s.rootS) \/ o \in s.rootW \/ o \in Range(s.rootD)
               \/ \E p \in Obj : s.alive[p] /\ (o \in Kids(s, p) \/ o \in s.weak[p])
FreeIds(s) == {o \in Obj : ~s.alive[o] /\ ~Stale(s, o)}

-----------------------------------------------------------------------------
(***************************************************************************)
(* Collector primitives, one per critical section of context.rs.           *)
(* `st = [s, m]` threads the number `m` of newly marked objects            *)
(* (Metrics::mark_gc_marked) through a trace.                              *)
(***************************************************************************)

\* Context::trace
TrStrong(st, c) ==
  LET s == st.s IN
  IF s.color[c] \in {"W", "WW"}
  THEN LET m2 == IF s.color[c] = "W" THEN st.m + 1 ELSE st.m
           mk == IF s.color[c] = "W" THEN 1 ELSE 0 IN     \* only the first marking counts
       IF NT(s, c) THEN [s |-> [s EXCEPT !.color[c] = "G", !.gray = Append(@, c), !.mt.marked = @ + mk], m |-> m2]
                   ELSE [s |-> [s EXCEPT !.color[c] = "B", !.mt.marked = @ + mk], m |-> m2]
  ELSE st

RECURSIVE TrSeq(_, _)
TrSeq(st, q) == IF q = <<>> THEN st ELSE TrSeq(TrStrong(st, Head(q)), Tail(q))

\* Context::trace_weak, applied to a set of targets (order is immaterial)
TrWeakSet(st, S) ==
  LET n == Cardinality({o \in S : st.s.color[o] = "W"}) IN
  [s |-> [st.s EXCEPT !.color = [o \in Obj |-> IF o \in S /\ st.s.color[o] = "W" THEN "WW" ELSE st.s.color[o]],
                      !.mt.marked = @ + n],
   m |-> st.m + n]

\* Context::make_gray_again
GrayAgain(s, p) == [s EXCEPT !.color[p] = "G", !.grayAgain = Append(@, p),
                             !.mt.traced = IF @ > 0 THEN @ - 1 ELSE 0,           \* mark_gc_untraced
                             !.fault = @ \/ s.color[p] # "B" \/ s.mt.traced = 0]  \* ... must not underflow

\* The write barriers.  The needs_trace test is the repair of finding F1.
Backward(s, p, c) ==
  IF InMark(s) /\ s.color[p] = "B" /\ NT(s, p) /\ (c = NoObj \/ s.color[c] \in {"W", "WW"})
  THEN GrayAgain(s, p) ELSE s
BackwardWeak(s, p, c) ==
  IF InMark(s) /\ s.color[p] = "B" /\ NT(s, p) /\ s.color[c] = "W" THEN GrayAgain(s, p) ELSE s
Forward(s, p, c) ==
  IF InMark(s) /\ (p = NoObj \/ s.color[p] = "B") THEN TrStrong([s |-> s, m |-> 0], c).s ELSE s
ForwardWeak(s, p, c) ==
  IF InMark(s) /\ (p = NoObj \/ s.color[p] = "B") THEN TrWeakSet([s |-> s, m |-> 0], {c}).s ELSE s
RootBarrier(s) == IF InMark(s) THEN [s EXCEPT !.rootNT = TRUE] ELSE s

\* the barrier executed by a store of `c` into `p` through `path`
ApplyBarrier(s, path, p, c) ==
  LET k == PathClass(path) IN
  CASE k = "bn"  -> Backward(s, p, NoObj)
    [] k = "bs"  -> Backward(s, p, c)
    [] k = "fs"  -> Forward(s, p, c)
    [] k = "fn"  -> Forward(s, NoObj, c)
    [] k = "bw"  -> BackwardWeak(s, p, c)
    [] k = "fws" -> ForwardWeak(s, p, c)
    [] k = "fwn" -> ForwardWeak(s, NoObj, c)
    [] k = "raw" -> s

\* GcBuilder::assume_init + Context::link
Alloc(s, o, k) ==
  [s EXCEPT !.alive[o] = TRUE, !.live[o] = TRUE, !.kind[o] = k, !.color[o] = "W",
            !.strong[o] = <<>>, !.weak[o] = {}, !.mt.alloc = @ + 1, !.leaked = @ \ {o},
            !.next[o] = s.head, !.head = o,
            !.sweepPrev = IF s.phase = "Sweep" /\ s.sweepPrev = NoObj THEN o ELSE s.sweepPrev]

\* Context::resurrect  (queued even when the object needs no tracing)
Resurrect(s, t) ==
  IF s.color[t] \in {"W", "WW"}
  THEN [s EXCEPT !.color[t] = "G", !.gray = Append(@, t), !.resurrected = @ \cup {t},
                 !.mt.marked = IF s.color[t] = "W" THEN @ + 1 ELSE @]
  ELSE s

\* the body of mark_one for an object popped from a queue: colour it black and trace its value
TraceObj(s, o) ==
  TrWeakSet(TrSeq([s |-> [s EXCEPT !.color[o] = "B", !.mt.traced = @ + 1], m |-> 0], s.strong[o]), s.weak[o])

\* the root's Collect::trace
TraceRoot(s) == TrWeakSet(TrSeq([s |-> s, m |-> 0], s.rootS \o s.rootD), s.rootW)

\* Fault injection (C11): a Collect::trace implementation that unwinds after having reported
\* `pos` of the strong pointers it holds (AllPos: after every strong and weak pointer).
AllPos == 99
Prefix(q, n) == IF n >= Len(q) THEN q ELSE SubSeq(q, 1, n)
PartialTraceObj(s, o, pos) ==
  LET st == TrSeq([s |-> [s EXCEPT !.color[o] = "B", !.mt.traced = @ + 1], m |-> 0], Prefix(s.strong[o], pos))
  IN IF pos = AllPos THEN TrWeakSet(st, s.weak[o]) ELSE st
PartialTraceRoot(s, pos) ==
  LET st == TrSeq([s |-> s, m |-> 0], Prefix(s.rootS \o s.rootD, pos))
  IN IF pos = AllPos THEN TrWeakSet(st, s.rootW) ELSE st
\* does marking this object call into a user Collect::trace at all?
Ticks(s, o) == s.kind[o] \notin {"S", "D"} /\ ~(s.kind[o] = "O" /\ s.strong[o] = <<>>)
\* dat: the dat-th user destructor run by this call panics (-1: none)
NoFaultRec == [at |-> -1, pos |-> 0, dat |-> -1]
\* kinds whose value has a user destructor
HasDtor(k) == k \in {"N", "S", "F"}

\* Context::sweep_one with sweep # None.  Returns [s, earn] with earn in {"free", "keep"}.
SweepOne(s) ==
  LET o  == s.sweep
      nx == s.next[o]
      s1 == [s EXCEPT !.sweep = nx] IN
  CASE s.color[o] = "W" ->
         LET s2 == IF s.sweepPrev # NoObj THEN [s1 EXCEPT !.next[s.sweepPrev] = nx]
                                          ELSE [s1 EXCEPT !.head = nx, !.fault = @ \/ s.head # o]
         IN [s |-> [s2 EXCEPT !.alive[o] = FALSE, !.live[o] = FALSE, !.strong[o] = <<>>, !.weak[o] = {},
                              !.next[o] = NoObj, !.kind[o] = "N", !.slots[o] = <<>>, !.freeHead[o] = 0,
                              !.mt.dropped = IF s.live[o] THEN @ + 1 ELSE @, !.mt.freed = @ + 1],
             earn |-> "free"]
    [] s.color[o] = "WW" ->
         [s |-> [s1 EXCEPT !.sweepPrev = o, !.color[o] = "W", !.live[o] = FALSE,
                           !.strong[o] = <<>>, !.weak[o] = {}, !.slots[o] = <<>>, !.freeHead[o] = 0,
                           !.mt.dropped = IF s.live[o] THEN @ + 1 ELSE @, !.mt.remembered = @ + 1],
          earn |-> "keep"]
    [] s.color[o] = "B" ->
         [s |-> [s1 EXCEPT !.sweepPrev = o, !.color[o] = "W", !.mt.remembered = @ + 1], earn |-> "keep"]
    [] OTHER ->   \* gray object in the sweep region: debug_assert in the code
         [s |-> [s1 EXCEPT !.fault = TRUE], earn |-> "keep"]

\* does sweeping the object under the cursor run a user destructor?
SweepDestructs(s) ==
  s.sweep # NoObj /\ s.live[s.sweep] /\ s.color[s.sweep] \in {"W", "WW"} /\ HasDtor(s.kind[s.sweep])

\* sweep_one when that destructor panics (the panic leaves do_collection).
\*  White arm: the object is already unlinked; the unwind skips dealloc and both counters: the block is
\*    never released and stays counted (the crate does the same in Drop for Context: leaking is safe).
\*  WhiteWeak arm: the header was flagged dead BEFORE the destructor ran, so the shell is what it would have
\*    been; `dropped` and `remembered` are not counted.
\* Either way the value counts as destructed: its destructor is never run again.
SweepOnePanic(s) ==
  LET o  == s.sweep
      nx == s.next[o]
      s1 == [s EXCEPT !.sweep = nx] IN
  IF s.color[o] = "W"
  THEN LET s2 == IF s.sweepPrev # NoObj THEN [s1 EXCEPT !.next[s.sweepPrev] = nx]
                                        ELSE [s1 EXCEPT !.head = nx, !.fault = @ \/ s.head # o]
       IN [s2 EXCEPT !.alive[o] = FALSE, !.live[o] = FALSE, !.strong[o] = <<>>, !.weak[o] = {},
                     !.next[o] = NoObj, !.kind[o] = "N", !.slots[o] = <<>>, !.freeHead[o] = 0, !.lost = @ + 1]
  ELSE [s1 EXCEPT !.sweepPrev = o, !.color[o] = "W", !.live[o] = FALSE,
                  !.strong[o] = <<>>, !.weak[o] = {}, !.slots[o] = <<>>, !.freeHead[o] = 0]

\* the end of a cycle: sweep_one's Break arm + Metrics::finish_cycle + root_needs_trace + switch(Sleep)
EndSweep(s, reset) ==
  [FinishCycleM(s, reset) EXCEPT !.sweepPrev = NoObj, !.rootNT = TRUE, !.phase = "Sleep", !.resurrected = {}]

\* Drop for Context.  (DropAllF below: with a destructor that panics.)
DropAll(s) ==
  [s EXCEPT !.phase = "Dropped",
            !.alive = [o \in Obj |-> FALSE], !.live = [o \in Obj |-> FALSE],
            !.color = [o \in Obj |-> "W"], !.kind = [o \in Obj |-> "N"],
            !.strong = [o \in Obj |-> <<>>], !.weak = [o \in Obj |-> {}],
            !.rootS = <<>>, !.rootW = {}, !.rootD = <<>>, !.head = NoObj, !.next = [o \in Obj |-> NoObj],
            !.slots = [o \in Obj |-> <<>>], !.freeHead = [o \in Obj |-> 0],
            !.sweep = NoObj, !.sweepPrev = NoObj, !.gray = <<>>, !.grayAgain = <<>>, !.rootNT = FALSE,
            !.mutSinceWake = FALSE, !.resurrected = {},
            !.mt = [alloc |-> 0, marked |-> 0, traced |-> 0, remembered |-> 0, dropped |-> 0, freed |-> 0,
                    wakeQ |-> 0, artQ |-> 0]]

\* Drop for Context while the dat-th destructor it runs panics: DropAll's guard resumes with the rest of
\* the list during the unwind; the block of the value whose destructor panicked is skipped (lost)
DropAllF(s, dat) ==
  LET n == Cardinality({o \in Obj : s.alive[o] /\ s.live[o] /\ HasDtor(s.kind[o])})
  IN [DropAll(s) EXCEPT !.lost = IF dat >= 0 /\ dat < n THEN @ + 1 ELSE @]

-----------------------------------------------------------------------------
(***************************************************************************)
(* Context::do_collection.  A call is the iteration of Iter.               *)
(*                                                                         *)
(* c = [kind, slept, budget, gran, cont]                                   *)
(*   kind    the public entry point                                        *)
(*   slept   has_slept                                                     *)
(*   budget  for debt-driven kinds: how many earning events until the      *)
(*           debt is paid.  The debt only changes through the credit       *)
(*           counters, so "after an iteration that earned credit" (or at   *)
(*           a cycle end) is exactly where ANY pacing can make the call    *)
(*           return; the budget is that choice made explicit.              *)
(*   gran    which events earn: P1 = an object traced / kept / freed       *)
(*           (trace_factor = keep_factor = free_factor = 1), P2 = an       *)
(*           object newly marked (mark_factor = 1)                         *)
(*   cont    whether debt carried over a cycle end exceeds the new         *)
(*           wake-up amount (collect_debt only)                            *)
(***************************************************************************)
CallKinds == {"collect_debt", "mark_debt", "finish_marking", "cycle_debt", "finish_cycle", "start_sweeping"}
PayKinds  == {"collect_debt", "mark_debt", "cycle_debt"}
StopOf(kind) ==
  CASE kind \in {"mark_debt", "finish_marking"} -> 0     \* Stop::FullyMarked
    [] kind = "start_sweeping"                  -> 1     \* Stop::AtSweep
    [] kind \in {"cycle_debt", "finish_cycle"}  -> 2     \* Stop::FinishCycle
    [] kind = "collect_debt"                    -> 3     \* Stop::Full

Spend(c, traced, marked, swept) ==
  IF c.kind \notin PayKinds THEN c
  ELSE LET e == IF c.gran = "P1" THEN traced + swept ELSE marked
       IN [c EXCEPT !.budget = IF e >= @ THEN 0 ELSE @ - e]

\* One iteration of the `loop` in do_collection, including the checks that follow the `match`.
\* Returns [s, c, done].
\* is the debt paid?  gran = "real": Metrics::allocation_debt decides (pacing configurations);
\* otherwise the explicit budget (an empty arena has no debt in either case)
Paid(s, c) == IF c.gran = "real" THEN DebtQ(s) = 0 ELSE c.budget = 0 \/ Count(s) = 0
NoDebtAtEntry(s, b, g) == IF g = "real" THEN DebtQ(s) = 0 ELSE b = 0 \/ Count(s) = 0

Iter(s, c) ==
  LET stop == StopOf(c.kind)
      \* the two checks after the match: never yield with the sweep list exhausted (repair of
      \* finding F6); debt-driven calls return when the debt is paid (an empty arena has no debt)
      After(s2, c2) ==
        IF s2.phase = "Sweep" /\ s2.sweep = NoObj THEN [s |-> s2, c |-> c2, done |-> FALSE]
        ELSE [s |-> s2, c |-> c2, done |-> c2.kind \in PayKinds /\ Paid(s2, c2)]
  IN
  CASE s.phase = "Sleep" ->
         After([s EXCEPT !.phase = "Mark", !.mutSinceWake = FALSE], [c EXCEPT !.slept = TRUE])
    [] s.phase = "Mark" ->
         IF s.gray # <<>> \/ s.grayAgain # <<>> THEN
           LET fromGray == s.gray # <<>>
               o  == IF fromGray THEN Last(s.gray) ELSE Last(s.grayAgain)
               s0 == IF fromGray THEN [s EXCEPT !.gray = Front(@)] ELSE [s EXCEPT !.grayAgain = Front(@)]
           IN IF (c.fault.at = 0 /\ Ticks(s, o)) \/ o \in s.leaked
              THEN \* the trace call unwinds: mark_one's DropGuard re-queues the object, the panic
                   \* leaves do_collection.  RefLock::trace borrows the cell, which panics (before any
                   \* pointer is reported) while a leaked RefMut exists: such an object is never skipped
                   [s |-> GrayAgain(PartialTraceObj(s0, o, IF o \in s.leaked THEN 0 ELSE c.fault.pos).s, o),
                    c |-> [c EXCEPT !.fault = NoFaultRec], done |-> TRUE]
              ELSE LET r  == TraceObj(s0, o)
                       c1 == IF Ticks(s, o) /\ c.fault.at > 0 THEN [c EXCEPT !.fault.at = @ - 1] ELSE c
                   IN After(r.s, Spend(c1, 1, r.m, 0))
         ELSE IF s.rootNT THEN
           IF c.fault.at = 0
           THEN \* the root's trace unwinds: root_needs_trace stays set
                [s |-> PartialTraceRoot(s, c.fault.pos).s, c |-> [c EXCEPT !.fault = NoFaultRec], done |-> TRUE]
           ELSE LET r  == TraceRoot(s)
                    c1 == IF c.fault.at > 0 THEN [c EXCEPT !.fault.at = @ - 1] ELSE c
                IN After([r.s EXCEPT !.rootNT = FALSE], Spend(c1, 0, r.m, 0))
         ELSE IF stop <= 0 THEN [s |-> s, c |-> c, done |-> TRUE]
         ELSE After([s EXCEPT !.phase = "Sweep", !.sweep = s.head], c)
    [] s.phase = "Sweep" ->
         IF stop <= 1 THEN [s |-> s, c |-> c, done |-> TRUE]
         ELSE IF s.sweep = NoObj THEN
           LET s2 == EndSweep(s, c.slept) IN
           IF stop = 2 THEN [s |-> s2, c |-> c, done |-> TRUE]
           ELSE IF c.slept THEN [s |-> s2, c |-> c, done |-> TRUE]
           ELSE \* collect_debt finished a cycle it did not start: the remaining debt is carried
                \* over (Metrics::finish_cycle(false)) and compared with the new wake-up amount
                [s |-> s2, c |-> c, done |-> IF c.gran = "real" THEN DebtQ(s2) = 0
                                                   ELSE ~c.cont \/ c.budget = 0 \/ Count(s2) = 0]
         ELSE IF SweepDestructs(s) /\ c.fault.dat = 0
         THEN [s |-> SweepOnePanic(s), c |-> [c EXCEPT !.fault = NoFaultRec], done |-> TRUE]
         ELSE LET r  == SweepOne(s)
                  c1 == IF SweepDestructs(s) /\ c.fault.dat > 0 THEN [c EXCEPT !.fault.dat = @ - 1] ELSE c
              IN After(r.s, Spend(c1, 0, 0, 1))
    [] OTHER -> [s |-> [s EXCEPT !.fault = TRUE], c |-> c, done |-> TRUE]

RECURSIVE Loop(_, _)
Loop(s, c) == LET r == Iter(s, c) IN IF r.done THEN r.s ELSE Loop(r.s, r.c)

\* A description of the iteration Iter(s, c) is about to run; the sequence of these over a call
\* is the call's SIGNATURE, used only to classify behaviours for replay (coverage classes).
IterTag(s, c) ==
  CASE s.phase = "Sleep" -> <<"wake", Count(s)>>
    [] s.phase = "Mark" ->
         IF s.gray # <<>> \/ s.grayAgain # <<>> THEN
           LET o == IF s.gray # <<>> THEN Last(s.gray) ELSE Last(s.grayAgain) IN
           <<IF s.gray # <<>> THEN "gray" ELSE "again", (c.fault.at = 0 /\ Ticks(s, o)) \/ o \in s.leaked>>
         ELSE IF s.rootNT THEN
           <<"root", c.fault.at = 0>>
         ELSE IF StopOf(c.kind) <= 0 THEN <<"stop-marked">>
         ELSE <<"enter-sweep", s.head = NoObj>>
    [] s.phase = "Sweep" ->
         IF StopOf(c.kind) <= 1 THEN <<"stop-sweep">>
         ELSE IF s.sweep = NoObj THEN <<"end-sweep", c.slept>>
         ELSE <<"sweep", s.color[s.sweep], s.live[s.sweep], s.sweepPrev = NoObj, s.next[s.sweep] = NoObj,
                SweepDestructs(s) /\ c.fault.dat = 0>>
    [] OTHER -> <<"?">>

RECURSIVE LoopSig(_, _)
LoopSig(s, c) == LET r == Iter(s, c) IN IF r.done THEN <<IterTag(s, c)>> ELSE <<IterTag(s, c)>> \o LoopSig(r.s, r.c)

CallSig(s, kind, b, g, cont, fault) ==
  IF kind \in PayKinds /\ NoDebtAtEntry(s, b, g) THEN <<>>
  ELSE LoopSig(s, [kind |-> kind, slept |-> FALSE, budget |-> b, gran |-> g, cont |-> cont, fault |-> fault])

\* A public collection call.  b = 0 stands for "called with no debt".  `fault` arms a trace
\* panic at the fault.at-th trace invocation of this call (NoFaultRec: none).
CallF(s, kind, b, g, cont, fault) ==
  IF kind \in PayKinds /\ NoDebtAtEntry(s, b, g) THEN s
  ELSE Loop(s, [kind |-> kind, slept |-> FALSE, budget |-> b, gran |-> g, cont |-> cont, fault |-> fault])
Call(s, kind, b, g, cont) == CallF(s, kind, b, g, cont, NoFaultRec)

FinishCycle(s)   == Call(s, "finish_cycle", 0, "P1", FALSE)
FinishMarking(s) == Call(s, "finish_marking", 0, "P1", FALSE)

\* mark_debt / finish_marking hand out a MarkedArena iff ...
ReturnsMarked(s2) == s2.phase = "Mark" /\ ~GrayRemaining(s2)

-----------------------------------------------------------------------------
(***************************************************************************)
(* Mutator steps.  "Mutation xor collection": nothing interleaves inside a *)
(* callback, so a callback is one atomic step.  Each operator is the       *)
(* effect of one callback body; `Mut` records that the mutator ran.        *)
(***************************************************************************)
Mut(s) == IF InMark(s) THEN [s EXCEPT !.mutSinceWake = TRUE] ELSE s

HasRoom(s, p) == Len(s.strong[p]) < KidCap(s.kind[p])
HasWeakRoom(s, p) == Cardinality(s.weak[p]) < WeakCap(s.kind[p])

\* store `c` as a strong child of `p` through `path`.  An "L" cell is overwritten; an "O" cell
\* accepts only its first value (OnceLock::set on a full cell returns Err and does nothing).
Store(s, p, c, path) ==
  LET k == s.kind[p] IN
  IF k = "O" /\ s.strong[p] # <<>> THEN s
  ELSE LET sb == ApplyBarrier(s, path, p, c)
       IN [sb EXCEPT !.strong[p] = IF k = "L" THEN <<c>> ELSE Append(@, c)]

WStore(s, p, t, path) ==
  LET sb == ApplyBarrier(s, path, p, t)
  IN [sb EXCEPT !.weak[p] = IF s.kind[p] = "L" THEN {t} ELSE @ \cup {t}]

Remove(s, p, c, path)  == [ApplyBarrier(s, path, p, NoObj) EXCEPT !.strong[p] = SeqRemove(@, c)]
WRemove(s, p, t, path) == [ApplyBarrier(s, path, p, NoObj) EXCEPT !.weak[p] = @ \ {t}]

AllocRoot(s, o, k)          == Mut([RootBarrier(Alloc(s, o, k)) EXCEPT !.rootS = Append(@, o)])
AllocInto(s, o, k, p, path) == Mut(Store(Alloc(s, o, k), p, o, path))
AllocTemp(s, o, k)          == Mut(Alloc(s, o, k))
Link(s, p, c, path)         == Mut(Store(s, p, c, path))
Unlink(s, p, c, path)       == Mut(Remove(s, p, c, path))
RootAdd(s, c)               == Mut([RootBarrier(s) EXCEPT !.rootS = Append(@, c)])
RootRemove(s, c)            == Mut([RootBarrier(s) EXCEPT !.rootS = SeqRemove(@, c)])
WLink(s, p, t, path)        == Mut(WStore(s, p, t, path))
WUnlink(s, p, t, path)      == Mut(WRemove(s, p, t, path))
RootWAdd(s, t)              == Mut([RootBarrier(s) EXCEPT !.rootW = @ \cup {t}])
RootWRemove(s, t)           == Mut([RootBarrier(s) EXCEPT !.rootW = @ \ {t}])
-----------------------------------------------------------------------------
(***************************************************************************)
(* DynamicRootSet (src/dynamic_roots.rs).  The strong children of a set    *)
(* object are DERIVED: the objects of its occupied slots, in index order   *)
(* (Inner::trace -> Slots::trace -> Vec<Slot>::trace).                     *)
(***************************************************************************)
VacantSlot(nf) == [occ |-> FALSE, obj |-> NoObj, rc |-> 0, nf |-> nf]
DerivedKids(sl) == LET occ == SelectSeq(sl, LAMBDA x : x.occ) IN [i \in DOMAIN occ |-> occ[i].obj]
WithSlots(s, d, sl, fh) == [s EXCEPT !.slots[d] = sl, !.freeHead[d] = fh, !.strong[d] = DerivedKids(sl)]

\* does the handle still refer to a live set (its Weak<..> upgrades)?
HandleValid(s, hd) == hd.set # NoObj /\ s.live[hd.set] /\ s.kind[hd.set] = "D" /\ s.gen[hd.set] = hd.gen

\* DynamicRootSet::new + storing it in the root (mutate_root)
NewSet(s, o) ==
  LET s1 == Alloc(s, o, "D") IN
  Mut([RootBarrier(s1) EXCEPT !.rootD = Append(@, o), !.gen[o] = s.nextGen, !.nextGen = @ + 1,
                              !.slots[o] = <<>>, !.freeHead[o] = 0])
RemoveSet(s, d) == Mut([RootBarrier(s) EXCEPT !.rootD = SeqRemove(@, d)])

\* DynamicRootSet::stash: backward_barrier(set, Some(root)); Slots::add (refcount starts at 0)
Stash(s, d, c, hid) ==
  LET sb  == Backward(s, d, c)
      sl  == sb.slots[d]
      fh  == sb.freeHead[d]
      new == [occ |-> TRUE, obj |-> c, rc |-> 0, nf |-> 0]
      idx == IF fh # 0 THEN fh ELSE Len(sl) + 1
      sl2 == IF fh # 0 THEN [sl EXCEPT ![fh] = new] ELSE Append(sl, new)
      fh2 == IF fh # 0 THEN sl[fh].nf ELSE 0
  IN Mut([WithSlots(sb, d, sl2, fh2) EXCEPT !.handles[hid] = [set |-> d, gen |-> s.gen[d], idx |-> idx, obj |-> c]])

\* Clone for DynamicRoot: Slots::inc if the set still exists
CloneHandle(s, hid, hid2) ==
  LET hd == s.handles[hid]
      s1 == [s EXCEPT !.handles[hid2] = hd] IN
  IF HandleValid(s, hd) THEN [s1 EXCEPT !.slots[hd.set][hd.idx].rc = @ + 1] ELSE s1

\* Drop for DynamicRoot: Slots::dec if the set still exists; the last handle vacates the slot
DropHandle(s, hid) ==
  LET hd == s.handles[hid]
      s1 == [s EXCEPT !.handles[hid] = NoHandle] IN
  IF ~HandleValid(s, hd) THEN s1
  ELSE LET sl == s.slots[hd.set] IN
       IF sl[hd.idx].rc = 0
       THEN Mut(WithSlots(s1, hd.set, [sl EXCEPT ![hd.idx] = VacantSlot(s.freeHead[hd.set])], hd.idx))  \* the graph loses an edge
       ELSE [s1 EXCEPT !.slots[hd.set][hd.idx].rc = @ - 1]

\* what fetch / try_fetch / contains answer for handle hd presented to set d
FetchOk(s, d, hd) == HandleValid(s, hd) /\ hd.set = d

\* a barrier with no adoption following it
BarrierOnly(s, path, p, c)  == Mut(ApplyBarrier(s, path, p, c))
\* mem::forget(p.borrow_mut(mc)): the write barrier of borrow_mut, and the cell stays mutably borrowed
Leak(s, p)                  == [Mut(ApplyBarrier(s, "borrow_mut", p, NoObj)) EXCEPT !.leaked = @ \cup {p}]
\* upgrade the weak pointer to `t` and, if that succeeds, store the result in `p`
UpgradeStore(s, t, p, path) == IF CanUpgrade(s, t) THEN Link(s, p, t, path) ELSE s
\* MarkedArena::finalize with a resurrection
Finalize(s, t)              == IF t = NoObj THEN s ELSE Mut(Resurrect(s, t))

=============================================================================
