------------------------------- MODULE Layout -------------------------------
(***************************************************************************)
(* C17: integer transcription of gc-arena's allocation layout computation  *)
(* (src/gc_ptr.rs: PtrProps::META_HEADER_LAYOUT, prefix_header_layout,     *)
(* GcPtr::alloc; src/slice.rs: SliceWithHeader::layout; src/meta.rs) over  *)
(* core::alloc::Layout::{extend, pad_to_align, array}.                     *)
(*                                                                         *)
(* A grid point describes a value; Expect(p) is what the allocator must    *)
(* see and where the value must lie.  TLC (i) checks the layout invariants *)
(* for every point of the grid and (ii) prints the grid, which the harness *)
(* allocates point by point through the public API; LayoutTrace validates  *)
(* the recorded observations against Expect.                               *)
(***************************************************************************)
EXTENDS Naturals, Integers, Sequences, FiniteSets, TLC, Json

\* The grid (the harness has one compiled type per entry; an entry it does not know is a tool error)
SizedBytes == {0, 1, 2, 3, 4, 5, 7, 8, 9, 12, 15, 16, 17, 24, 31, 32, 33, 40, 48, 63, 64, 65, 72}
Aligns     == {1, 2, 4, 8, 16, 32, 64, 128, 4096}
SizedGrid  == SizedBytes \X Aligns           \* <<bytes, align>>: size = bytes rounded up to align
ElemGrid   == {<<0, 1>>, <<1, 1>>, <<2, 2>>, <<4, 4>>, <<8, 8>>, <<16, 16>>, <<3, 1>>, <<12, 4>>, <<32, 32>>}
HeaderGrid == {<<0, 1>>, <<1, 1>>, <<4, 4>>, <<8, 8>>, <<16, 16>>, <<3, 1>>, <<32, 32>>}
SwhElems   == {<<0, 1>>, <<1, 1>>, <<2, 2>>, <<8, 8>>, <<16, 16>>, <<3, 1>>, <<32, 32>>}
Lens       == {0, 1, 2, 3, 5, 8, 33}

RoundUp(n, a) == ((n + a - 1) \div a) * a
Max(a, b) == IF a >= b THEN a ELSE b

GcHeaderSize  == 16      \* two words: `next` and the tagged vtable pointer
GcHeaderAlign == 8

\* core::alloc::Layout as [size, align]
L(s, a) == [size |-> s, align |-> a]
\* Layout::extend: returns <<layout, offset of `next`>>
Extend(l, next) == LET off == RoundUp(l.size, next.align)
                   IN <<L(off + next.size, Max(l.align, next.align)), off>>
PadToAlign(l) == L(RoundUp(l.size, l.align), l.align)
ArrayLayout(e, n) == L(e.size * n, e.align)

\* PtrProps::META_HEADER_LAYOUT = Layout::new::<PtrMetadata>().extend(Layout::new::<GcHeader>()).0.pad_to_align()
MetaHeaderLayout(meta) == PadToAlign(Extend(meta, L(GcHeaderSize, GcHeaderAlign))[1])
\* prefix_header_layout(header_layout, value_layout) = header_layout.extend(value_layout)
PrefixHeader(hl, vl) == Extend(hl, vl)

\* SliceWithHeader::<H, E>::layout(len) = H.extend(array(E, len)).0.pad_to_align()
SwhLayout(h, e, n) == PadToAlign(Extend(h, ArrayLayout(e, n))[1])
SwhSliceOffset(h, e, n) == Extend(h, ArrayLayout(e, n))[2]

UnitMeta  == L(0, 1)     \* PtrMetadata = ()
UsizeMeta == L(8, 8)     \* PtrMetadata = usize (slice length)
U32Meta   == L(4, 4)     \* PtrMetadata = u32: a CLIENT pointer kind (gc_arena::meta::PtrMeta / AllocMeta) for [E]

\* ---------------------------------------------------------------- grid points
SizedPoints == {[kind |-> "sized", bytes |-> p[1], align |-> p[2]] : p \in SizedGrid}
SlicePoints == {[kind |-> "slice", esize |-> e[1], ealign |-> e[2], len |-> n] : e \in ElemGrid, n \in Lens}
StrPoints   == {[kind |-> "str", len |-> n] : n \in Lens}
SwhPoints   == {[kind |-> "swh", hsize |-> h[1], halign |-> h[2], esize |-> e[1], ealign |-> e[2], len |-> n] :
                  h \in HeaderGrid, e \in SwhElems, n \in Lens}
\* "cslice": [E] under a client-written pointer kind whose length metadata is a u32 and whose AllocMeta::layout is
\* Layout::array::<E>(len) -- metadata narrower than a word, which no kind shipped with the crate has
CSlicePoints == {[kind |-> "cslice", esize |-> e[1], ealign |-> e[2], len |-> n] : e \in ElemGrid, n \in Lens}
Points == SizedPoints \cup SlicePoints \cup StrPoints \cup SwhPoints \cup CSlicePoints

ValueLayout(p) ==
  CASE p.kind = "sized" -> L(RoundUp(p.bytes, p.align), p.align)
    [] p.kind = "slice" -> SwhLayout(L(0, 1), L(p.esize, p.ealign), p.len)
    [] p.kind = "str"   -> SwhLayout(L(0, 1), L(1, 1), p.len)
    [] p.kind = "cslice" -> ArrayLayout(L(p.esize, p.ealign), p.len)
    [] p.kind = "swh"   -> SwhLayout(L(p.hsize, p.halign), L(p.esize, p.ealign), p.len)
MetaLayout(p) == IF p.kind = "sized" THEN UnitMeta ELSE IF p.kind = "cslice" THEN U32Meta ELSE UsizeMeta

\* what GcPtr::alloc asks the allocator for, and where it puts things (offsets from the block start)
Expect(p) ==
  LET vl  == ValueLayout(p)
      mhl == MetaHeaderLayout(MetaLayout(p))
      ph  == PrefixHeader(mhl, vl)
  IN [ block_size |-> ph[1].size, block_align |-> ph[1].align, value_off |-> ph[2],
       value_size |-> vl.size, value_align |-> vl.align,
       header_off |-> ph[2] - GcHeaderSize, meta_off |-> ph[2] - mhl.size, meta_size |-> MetaLayout(p).size,
       slice_off  |-> IF p.kind = "swh" THEN SwhSliceOffset(L(p.hsize, p.halign), L(p.esize, p.ealign), p.len) ELSE 0 ]

\* ---------------------------------------------------------------- the property, on the model
Disjoint(a, an, b, bn) == a + an <= b \/ b + bn <= a

LayoutOK(p) ==
  LET e == Expect(p) IN
  /\ e.value_off % e.value_align = 0                                  \* value aligned (block is aligned to block_align >= value_align)
  /\ e.block_align >= e.value_align /\ e.block_align >= GcHeaderAlign
  /\ e.header_off >= 0 /\ e.header_off % GcHeaderAlign = 0            \* bookkeeping inside the block, aligned
  /\ e.meta_off >= 0 /\ e.meta_off % MetaLayout(p).align = 0
  /\ e.meta_off + e.meta_size <= e.header_off                         \* metadata before the header
  /\ e.header_off + GcHeaderSize = e.value_off                        \* header right in front of the value
  /\ Disjoint(e.header_off, GcHeaderSize, e.value_off, e.value_size)  \* value disjoint from bookkeeping
  /\ Disjoint(e.meta_off, e.meta_size, e.value_off, e.value_size)
  /\ e.block_size = e.value_off + e.value_size                        \* nothing beyond the value
  /\ p.kind = "swh" => e.slice_off % p.ealign = 0 /\ e.slice_off >= p.hsize
                       /\ e.slice_off + p.esize * p.len <= e.value_size

=============================================================================
