------------------------------ MODULE WriteCap ------------------------------
(***************************************************************************)
(* C13: safe code cannot adopt a pointer without a write barrier.          *)
(*                                                                         *)
(* A capability model of src/barrier.rs.  The universe is two GC objects   *)
(* -- A: already marked (Black), reachable, NOT written in this callback;  *)
(* B: freshly allocated in this callback (a barrier on it is a no-op) --   *)
(* and PLACES: storage locations that can hold pointers, each with the set *)
(* of GC objects that own it (transitively; shared ownership counts for    *)
(* every sharer).  A `&Write<T>` is a capability on a place; projecting it *)
(* moves to another place.  Each move is guarded by a FACT about the       *)
(* crate's API, measured by a compile probe (does that move compile for a  *)
(* T that can hold arena pointers?).  The property is the invariant        *)
(*     every capability's place is owned only by objects that received a   *)
(*     write barrier in this callback                                      *)
(* because `unlock()` on such a capability is a mutation right, i.e. the   *)
(* ability to adopt a pointer.  With the measured facts TLC either proves  *)
(* the invariant for all move sequences or returns a RECIPE (a sequence of *)
(* moves), which the runner renders into a program and runs.               *)
(***************************************************************************)
EXTENDS Naturals, Sequences, FiniteSets, TLC, Json

CONSTANTS
  \* measured facts (TRUE = the move compiles in safe code for pointer-holding T)
  FromMut,          \* Write::from_mut(&mut T) for a stack value T
  FromStaticAny,    \* Write::from_static(&T) for non-'static T
  AssumeSafe,       \* Write::assume is callable without `unsafe`
  DerefRef, DerefBox, DerefVec, DerefRc, DerefArc,   \* Write<K<T>>::as_deref()
  IndexUnique,      \* indexing a Write<[T]> / Vec / VecDeque / map yields Write<element>
  IndexUserImpl,    \* ... and does so for an index type whose Index impl the CLIENT wrote (orphan rules allow
                    \* `impl Index<LocalIdx> for [Concrete]`): such an impl may return ANY reference, e.g. one
                    \* carried inside the index value
  FieldThroughDeref,\* field! accepts a value behind a Deref (e.g. &Write<Box<S>> or &Write<&S>)
  UnlockNoWrite,    \* Lock / RefLock / OnceLock can be unlocked from a plain shared reference
  CellHoldsGc,      \* Cell<Gc> / RefCell<Gc> implement Collect (plain cells inside GC objects)
  AsWriteOption     \* Write<Option<T>>::as_write / Result

Objs == {"A", "B"}

\* Places.  own = the GC objects owning the storage; kind = what is stored there:
\*   "val"   a value with an inline lock field              (root of an object, target of a pointer)
\*   "lock"  a Lock/RefLock place: holds pointers; unlock needs a capability
\*   K       a field of container kind K pointing to / owning another "val"
Kinds == {"Ref", "Box", "Vec", "Rc", "Arc"}
\* ownership of the target of a container field that lives in a place owned by `own`:
\*   Box / Vec own their target uniquely; an Rc / Arc target is shared by A and B (B was built from a
\*   clone of A's Rc); a shared reference's target is A's own storage (obtained with Gc::as_ref(A))
TargetOwners(k, own) == CASE k \in {"Box", "Vec"} -> own
                          [] k \in {"Rc", "Arc"} -> {"A", "B"}
                          [] k = "Ref" -> {"A"}

Place(kind, own) == [kind |-> kind, own |-> own]

VARIABLES caps,        \* set of places safe code holds a &Write to
          barriered,   \* objects that received a write barrier in this callback
          recipe       \* the moves made (history; makes the counterexample readable)
vars == <<caps, barriered, recipe>>

Init == caps = {} /\ barriered = {} /\ recipe = <<>>

Step(newcaps, move) == caps' = caps \cup newcaps /\ recipe' = Append(recipe, move) /\ UNCHANGED barriered

\* Gc::write(mc, o): barrier on o, capability on o's value
GcWrite(o) == /\ barriered' = barriered \cup {o} /\ caps' = caps \cup {Place("val", {o})}
              /\ recipe' = Append(recipe, <<"Gc::write", o>>)

\* Write::from_mut on a STACK variable holding a pointer of kind k (the variable is owned by nobody:
\* exclusive access to it is real).  What the pointer targets is another matter.
FromMutStack(k) == FromMut /\ Step({Place(k, {})}, <<"Write::from_mut(&mut stack)", k>>)

\* Write::from_static / Write::assume for data that may hold pointers
Forge(o) == (FromStaticAny \/ AssumeSafe) /\ Step({Place("val", {o})}, <<"forged Write", o>>)

\* field!(w, T, f): from a value to one of its fields (same owners).  Through a Deref it would jump
\* to the target.
Field(c, k) == /\ c \in caps /\ c.kind = "val" /\ Step({Place(k, c.own)}, <<"field!", c.kind, k>>)
FieldDeref(c) == /\ FieldThroughDeref /\ c \in caps /\ c.kind \in Kinds
                 /\ Step({Place("lock", TargetOwners(c.kind, c.own))}, <<"field! through Deref", c.kind>>)

\* as_deref: from a container field to the value it points to
DerefFact(k) == CASE k = "Ref" -> DerefRef [] k = "Box" -> DerefBox [] k = "Vec" -> DerefVec
                  [] k = "Rc" -> DerefRc [] k = "Arc" -> DerefArc
AsDeref(c) == /\ c \in caps /\ c.kind \in Kinds /\ DerefFact(c.kind)
              /\ Step({Place("val", TargetOwners(c.kind, c.own))}, <<"as_deref", c.kind>>)

\* indexing with a client-written Index impl: from a capability on ANY indexable container (a throw-away
\* stack array will do) to a place of the client's choosing, e.g. a lock inside the marked object A
IndexUser(c) == /\ IndexUserImpl /\ c \in caps
                /\ Step({Place("lock", {"A"})}, <<"index with a client-written Index impl", c.kind>>)

\* plain shared access (no capability needed): safe code can always READ its way from an object it can
\* reach to that object's lock places; this only matters if unlocking does not need a capability
ReadPath(o) == /\ UnlockNoWrite \/ CellHoldsGc
               /\ Step({Place("lock", {o})}, <<"unlock without Write / plain cell", o>>)

Next == \/ \E o \in Objs : GcWrite(o) \/ Forge(o) \/ ReadPath(o)
        \/ \E k \in Kinds : FromMutStack(k)
        \/ \E c \in caps : AsDeref(c) \/ FieldDeref(c) \/ IndexUser(c) \/ \E k \in Kinds \cup {"lock"} : Field(c, k)

Spec == Init /\ [][Next]_vars

\* The property: a capability (hence, after unlock, a mutation right on a place that can hold
\* pointers) exists only for storage all of whose owners were barriered.  B is fresh: barriers on
\* it are no-ops, which is exactly why sharing with A bites; only A needs one.
C13_NoUnbarrieredAdoption == \A c \in caps : ("A" \in c.own) => "A" \in barriered

Bounded == Len(recipe) <= 5
EmitRecipe == C13_NoUnbarrieredAdoption \/ PrintT(<<"RECIPE", ToJson(recipe)>>)
=============================================================================
