"""Satellite engines: Layout (C17), Builder (C18), Convert (C19).  Same pattern as the core:
TLC enumerates a finite space from the specification and checks the model's invariants on it,
the sat harness executes every element through the public API and records, a TLA+ trace
specification validates the recorded observations."""
import glob
import json
import os
import re
import subprocess
import time

import gcv
from gcv import ToolError, WORK, SPEC, ROOT, log, memo, run_tlc, extract_behaviours, write_evidence, seed, Lock

SAT = os.path.join(ROOT, "sat")


def build_sat():
    with Lock("cargo-sat"):
        lock_dst = os.path.join(SAT, "Cargo.lock")
        if not os.path.exists(lock_dst):
            import shutil
            shutil.copy(os.path.join(gcv.REPO, "Cargo.lock"), lock_dst)
        t0 = time.time()
        p = subprocess.run(["cargo", "build", "--offline", "--quiet"], cwd=SAT, stdout=subprocess.PIPE, stderr=subprocess.STDOUT, text=True)
        if p.returncode != 0:
            raise ToolError("sat harness build failed:\n" + p.stdout[-3000:])
        log(f"sat harness built in {time.time() - t0:.1f}s")
    return os.path.join(SAT, "target", "debug", "gcv-sat")


def rlib_paths():
    deps = os.path.join(SAT, "target", "debug", "deps")
    libs = sorted(glob.glob(os.path.join(deps, "libgc_arena-*.rlib")), key=os.path.getmtime)
    if not libs:
        raise ToolError("gc_arena rlib not found (build the sat harness first)")
    return libs[-1], deps


def probe_compile(src, name, outdir, extra_flags=()):
    """Compile a small client program against the freshly built gc-arena rlib (metadata only).
    Returns (accepted, diagnostics)."""
    rlib, deps = rlib_paths()
    os.makedirs(outdir, exist_ok=True)
    path = os.path.join(outdir, name + ".rs")
    with open(path, "w") as f:
        f.write(src)
    cmd = ["rustc", "--edition", "2024", "--crate-type", "lib", "--emit=metadata", "-o", os.path.join(outdir, name + ".rmeta"),
           "--extern", f"gc_arena={rlib}", "-L", f"dependency={deps}", "--cap-lints", "allow", "--error-format=short",
           *extra_flags, path]
    p = subprocess.run(cmd, stdout=subprocess.PIPE, stderr=subprocess.PIPE, text=True)
    return p.returncode == 0, p.stderr[-1500:]


SAT_SPECS = {
    "C17": {"kind": "layout", "mc": "MC_Layout", "trace": "LayoutTrace", "files": ["Layout.tla", "MC_Layout.tla", "LayoutTrace.tla"],
            "invs": ["Inv (LayoutOK: value aligned, bookkeeping inside the block and disjoint from the value, block = offset + size)"],
            "key": lambda r: json.dumps(r.get("point"), sort_keys=True)},
    "C18": {"kind": "builder", "mc": "MC_Builder", "trace": "BuilderTrace", "files": ["Builder.tla", "MC_Builder.tla", "BuilderTrace.tla"],
            "invs": ["Inv (the Drop transcription's terminal state agrees with Outcome for every life cycle)"],
            "key": lambda r: json.dumps(r.get("lc"), sort_keys=True)},
    "C19": {"kind": "convert", "mc": "MC_Convert", "trace": "ConvertTrace", "files": ["Convert.tla", "MC_Convert.tla", "ConvertTrace.tla"],
            "invs": ["Inv (every chain reaches a well-defined view; every strong view erases to Gc<()>, every weak view upgrades)"],
            "key": lambda r: json.dumps([r.get("target"), r.get("chain"), r.get("zst")], sort_keys=True)},
}


def sat_model(prop, d):
    sp = SAT_SPECS[prop]
    cfg = "SPECIFICATION Spec\nINVARIANTS Inv Emit\nCHECK_DEADLOCK FALSE\n"
    r = run_tlc(sp["mc"], cfg, sp["kind"], d, workers=4, timeout=900, xmx="4g")
    if r["error"]:
        raise ToolError(f"TLC run {sp['mc']} failed: {r['error']} (see {r['out']})")
    f = os.path.join(d, f"{sp['kind']}_grid.ndjson")
    n, _ = extract_behaviours(r["out"], f)
    os.remove(r["out"])
    r["behaviours"] = n
    return {"tlc": r, "grid": f}


CONJURE_PROBES = {
    # a safe client must not be able to obtain a Gc<T> for a T it never constructed
    "alloc_zst_void": ("""
use gc_arena::{Gc, Mutation, zst_cache::ZstCache};
pub enum Void {}
pub fn conjure<'gc>(mc: &Mutation<'gc>) -> Option<Gc<'gc, Void>> {
    let cache = ZstCache::<8>::new(mc);
    cache.alloc_zst::<Void>()
}
""", False),
    "alloc_zst_private_token": ("""
use gc_arena::{Gc, Mutation, zst_cache::ZstCache};
mod sealed { pub struct Token(()); }
pub fn conjure<'gc>(mc: &Mutation<'gc>) -> Option<Gc<'gc, sealed::Token>> {
    ZstCache::<1>::new(mc).alloc_zst::<sealed::Token>()
}
""", False),
    # positive twins: with a value in hand the cache is usable from safe code
    "alloc_static_with_value": ("""
use gc_arena::{Gc, Mutation, zst_cache::ZstCache};
pub struct Unit;
pub fn ok<'gc>(mc: &Mutation<'gc>) -> Gc<'gc, Unit> {
    ZstCache::<8>::new(mc).alloc_static(mc, Unit)
}
""", True),
    "cast_is_unsafe": ("""
use gc_arena::{Gc};
pub fn conjure<'gc>(g: Gc<'gc, u8>) -> Gc<'gc, bool> {
    Gc::cast::<bool>(g)
}
""", False),
    "from_ptr_is_unsafe": ("""
use gc_arena::{Gc};
pub fn conjure<'gc>(p: *const String) -> Gc<'gc, String> {
    Gc::from_ptr(p)
}
""", False),
}


def sat_collect(prop):
    """Run one satellite (model -> grid -> execution -> trace validation); returns its violations and records."""
    sp = SAT_SPECS[prop]
    skey = gcv._hash_paths([os.path.join(SPEC, f) for f in sp["files"]] + [os.path.join(ROOT, "runner", "engines_sat.py")])[:16]
    model, md = memo("sat-" + sp["kind"], skey, lambda d: sat_model(prop, d))
    d = os.path.join(WORK, "sat-" + prop)
    os.makedirs(d, exist_ok=True)
    binary = build_sat()
    obs = os.path.join(d, "obs.ndjson")
    p = subprocess.run([binary, sp["kind"], "--in", model["grid"], "--out", obs], stdout=subprocess.PIPE, stderr=subprocess.PIPE, text=True)
    viols = []
    if p.returncode != 0:
        # a crash while executing the grid through the public API
        done = sum(1 for _ in open(obs)) if os.path.exists(obs) else 0
        viols.append({"rule": "crash", "index": done + 1, "rc": p.returncode})
        # validate what was recorded up to the crash
    recs = []
    if os.path.exists(obs):
        good = []
        for l in open(obs, errors="replace"):
            try:
                recs.append(json.loads(l))
                good.append(l if l.endswith("\n") else l + "\n")
            except ValueError:
                break       # the line the harness was writing when it died
        if p.returncode != 0:
            with open(obs, "w") as f:
                f.writelines(good)
            viols[0]["index"] = len(recs) + 1
    cfg = "SPECIFICATION TSpec\nPOSTCONDITION Accepted\nCHECK_DEADLOCK FALSE\n"
    r = run_tlc(sp["trace"], cfg, sp["kind"] + "mon", d, workers=1, timeout=900, env={"TRACE": obs}, deque=True, xmx="4g")
    txt = open(r["out"], errors="replace").read()
    m = re.search(r'^<<"VERDICT", (".*")>>$', txt, re.M)
    if not m or r["error"]:
        raise ToolError(f"{sp['trace']} did not accept the observations: {r['error']} (see {r['out']})")
    v = json.loads(json.loads(m.group(1)))
    tool = [x for x in v["viol"] if x[0] == "TOOL" or x[1].startswith("tool")]
    if tool:
        raise ToolError(f"the harness does not support grid entries the specification enumerates: {tool[:3]}")
    if not viols and v.get("missing", 0) != 0:
        raise ToolError(f"{v['missing']} elements of the specification's space were not executed")
    for x in v["viol"]:
        viols.append({"rule": x[1], "index": x[2]})
    probes = {}
    if prop == "C19":
        for name, (src, expect_ok) in CONJURE_PROBES.items():
            ok, diag = probe_compile(src, name, os.path.join(d, "probes"))
            probes[name] = {"accepted": ok, "expected_accepted": expect_ok}
            if ok != expect_ok:
                viols.append({"rule": "conjure:" + name, "index": 0, "diag": diag[-400:]})
    return {"sp": sp, "viols": viols, "recs": recs, "model": model, "probes": probes, "v": v}


def check_sat(prop, tier):
    t0 = time.time()
    sc = sat_collect(prop)
    sp, viols, recs, model, probes, v = sc["sp"], sc["viols"], sc["recs"], sc["model"], sc["probes"], sc["v"]
    new = 0
    os.makedirs(os.path.join(WORK, "replays"), exist_ok=True)
    for x in viols[:6]:
        new += 1
        rec = recs[x["index"] - 1] if 0 < x["index"] <= len(recs) else None
        path = os.path.join(WORK, "replays", f"{prop}_{sp['kind']}_{x['index']}_{x['rule'].replace(':', '-')}.json")
        json.dump({"property": prop, "engine": "sat", "rule": f"{prop}.{x['rule']}", "record": rec, "detail": x}, open(path, "w"), indent=1)
        print(f"VIOLATION property={prop} replay={path}")
    new = len(viols)
    tl = model["tlc"]
    accepted = len(recs) - len({x["index"] for x in viols})
    cov = {
        "states": tl["distinct"], "transitions": tl["generated"],
        "traces_validated_against_impl": max(accepted, 0),
        "samples": [{k: r_.get(k) for k in ("point", "lc", "target", "chain", "zst") if k in r_} for r_ in recs[3:200:60]],
        "exhaustive": True,
        "evaluations": len(recs), "distinct_nontrivial": len({sp["key"](r_) for r_ in recs}),
        "rule": "every element of the finite space the specification defines (grid point / life cycle / conversion chain) is "
                "enumerated by TLC and executed once through the public API; elements are distinct by construction",
        "space_size": tl["behaviours"], "elements_executed": len(recs), "elements_missing": v.get("missing", 0),
        "model_invariants_checked": sp["invs"],
        "compile_probes": probes,
        "model_memoised": model.get("memoised", False),
        "checker_cmd": f"tlc {sp['mc']}.tla ; gcv-sat {sp['kind']} ; tlc {sp['trace']}.tla",
    }
    write_evidence(prop, tier, "model_checking", cov, SAT_ASSUMPTIONS[prop], time.time() - t0, len(viols))
    return 1 if new else 0


def replay_sat(rec):
    """Re-run one recorded satellite counterexample."""
    prop = rec.get("sat_property", rec["property"])
    sp = SAT_SPECS[prop]
    d = os.path.join(WORK, "replay-one")
    os.makedirs(d, exist_ok=True)
    if not rec.get("record"):
        print("no record to replay (compile probe or crash): re-run the check")
        return 1
    grid = os.path.join(d, "grid.ndjson")
    with open(grid, "w") as f:
        f.write(json.dumps(rec["record"]) + "\n")
    binary = build_sat()
    obs = os.path.join(d, "obs.ndjson")
    p = subprocess.run([binary, sp["kind"], "--in", grid, "--out", obs], stdout=subprocess.PIPE, stderr=subprocess.PIPE, text=True)
    if p.returncode != 0:
        print(f"harness crashed rc={p.returncode}")
        return 1
    cfg = "SPECIFICATION TSpec\nPOSTCONDITION Accepted\nCHECK_DEADLOCK FALSE\n"
    r = run_tlc(sp["trace"], cfg, "one", d, workers=1, timeout=300, env={"TRACE": obs}, deque=True, xmx="2g")
    txt = open(r["out"], errors="replace").read()
    m = re.search(r'^<<"VERDICT", (".*")>>$', txt, re.M)
    v = json.loads(json.loads(m.group(1))) if m else {"viol": [["?", "no verdict", 0]]}
    for x in v["viol"]:
        print(f"rule {x[0]}.{x[1]} broken")
    return 1 if v["viol"] else 0


SAT_ASSUMPTIONS = {
    "C17": ["GcHeader is 16 bytes / 8-aligned on this target (a constant of Layout.tla, confirmed by every grid point's value offset)",
            "the grid is the one listed in Layout.tla (23 sizes x 9 alignments up to 4096; 9 element and 7 header layouts; 7 lengths incl. 0)",
            "bytes are checked for the data bytes of the value (padding is unspecified)"],
    "C18": ["life cycles up to 4 elements; abandoning after k elements is reached through a panicking element constructor (init_length only grows inside write_slice_with)",
            "element kinds: destructor-logging, zero-sized with destructor, over-aligned (32) with destructor, Copy"],
    "C19": ["conversion chains up to length 4 over sized / slice / str / zero-sized targets; trait-object targets through unsize!",
            "the 'never conjures' clause is a programs-quantifier: it is decided by compile probes of each safe constructor (rustc is the judge), not by the model"],
}


# ============================================================================= TraceShape (C15, C16)
SHAPES = os.path.join(ROOT, "shapes")

DERIVE_PROBES = {
    # name: (source, expected to be accepted)
    "missing_mode": ("use gc_arena::Collect;\n#[derive(Collect)]\npub struct A { x: u32 }\n", False),
    "missing_mode_twin": ("use gc_arena::Collect;\n#[derive(Collect)]\n#[collect(no_drop)]\npub struct A { x: u32 }\n", True),
    "two_modes": ("use gc_arena::Collect;\n#[derive(Collect)]\n#[collect(no_drop, require_static)]\npub struct A { x: u32 }\n", False),
    "same_mode_twice": ("use gc_arena::Collect;\n#[derive(Collect)]\n#[collect(no_drop, no_drop)]\npub struct A { x: u32 }\n", False),
    "two_collect_attrs": ("use gc_arena::Collect;\n#[derive(Collect)]\n#[collect(no_drop)]\n#[collect(no_drop)]\npub struct A { x: u32 }\n", False),
    "no_drop_with_drop_impl": ("use gc_arena::Collect;\n#[derive(Collect)]\n#[collect(no_drop)]\npub struct A { x: u32 }\nimpl Drop for A { fn drop(&mut self) {} }\n", False),
    "unsafe_drop_with_drop_impl_twin": ("use gc_arena::Collect;\n#[derive(Collect)]\n#[collect(unsafe_drop)]\npub struct A { x: u32 }\nimpl Drop for A { fn drop(&mut self) {} }\n", True),
    "require_static_on_branded_type": ("use gc_arena::{Collect, Gc};\n#[derive(Collect)]\n#[collect(require_static)]\npub struct A<'gc> { x: Gc<'gc, u32> }\npub fn use_it<'gc, T: Collect<'gc>>() {}\npub fn f<'gc>() { use_it::<'gc, A<'gc>>() }\n", False),
    "require_static_on_static_type_twin": ("use gc_arena::Collect;\n#[derive(Collect)]\n#[collect(require_static)]\npub struct A { x: std::rc::Rc<u32> }\npub fn use_it<'gc, T: Collect<'gc>>() {}\npub fn f<'gc>() { use_it::<'gc, A>() }\n", True),
    "require_static_field_on_branded_type": ("use gc_arena::{Collect, Gc};\n#[derive(Collect)]\n#[collect(no_drop)]\npub struct A<'gc> { #[collect(require_static)] x: Gc<'gc, u32> }\npub fn use_it<'gc, T: Collect<'gc>>() {}\npub fn f<'gc>() { use_it::<'gc, A<'gc>>() }\n", False),
    # the 'static demand on a require_static field does not depend on how the rest of the where clause is written
    "require_static_field_on_branded_type_with_bound": ("use gc_arena::{Collect, Gc};\n#[derive(Collect)]\n#[collect(no_drop, bound = \"\")]\npub struct A<'gc> { #[collect(require_static)] x: Gc<'gc, u32> }\npub fn use_it<'gc, T: Collect<'gc>>() {}\npub fn f<'gc>() { use_it::<'gc, A<'gc>>() }\n", False),
    "require_static_field_with_generic_bound": ("use gc_arena::{Collect, Gc};\n#[derive(Collect)]\n#[collect(no_drop, bound = \"where T: Collect<'gc>\")]\npub struct A<'gc, T> { t: T, #[collect(require_static)] x: std::cell::RefCell<Option<Gc<'gc, u32>>> }\npub fn use_it<'gc, T: Collect<'gc>>() {}\npub fn f<'gc>() { use_it::<'gc, A<'gc, u32>>() }\n", False),
    "require_static_field_with_bound_static_twin": ("use gc_arena::Collect;\n#[derive(Collect)]\n#[collect(no_drop, bound = \"\")]\npub struct A { #[collect(require_static)] x: std::rc::Rc<u32> }\npub fn use_it<'gc, T: Collect<'gc>>() {}\npub fn f<'gc>() { use_it::<'gc, A>() }\n", True),
    "require_static_on_variant": ("use gc_arena::Collect;\n#[derive(Collect)]\n#[collect(no_drop)]\npub enum E { #[collect(require_static)] V(u32), W }\n", False),
    "require_static_on_variant_field_twin": ("use gc_arena::Collect;\n#[derive(Collect)]\n#[collect(no_drop)]\npub enum E { V(#[collect(require_static)] u32), W }\n", True),
    "field_not_collect": ("use gc_arena::Collect;\npub struct NotC;\n#[derive(Collect)]\n#[collect(no_drop)]\npub struct A { x: NotC }\n", False),
    "field_not_collect_require_static_twin": ("use gc_arena::Collect;\npub struct NotC;\n#[derive(Collect)]\n#[collect(no_drop)]\npub struct A { #[collect(require_static)] x: NotC }\n", True),
    "two_lifetimes_without_gc_lifetime": ("use gc_arena::{Collect, Gc};\nuse std::marker::PhantomData;\n#[derive(Collect)]\n#[collect(no_drop)]\npub struct A<'gc, 'a> { x: Gc<'gc, u32>, y: PhantomData<&'a ()> }\n", False),
    "two_lifetimes_with_gc_lifetime_twin": ("use gc_arena::{Collect, Gc};\nuse std::marker::PhantomData;\n#[derive(Collect)]\n#[collect(no_drop, gc_lifetime = 'gc)]\npub struct A<'gc, 'a> { x: Gc<'gc, u32>, y: PhantomData<&'a ()> }\n", True),
    "unknown_field_attribute": ("use gc_arena::Collect;\n#[derive(Collect)]\n#[collect(no_drop)]\npub struct A { #[collect(no_drop)] x: u32 }\n", False),
}

def _neg_derive_matrix():
    """A require_static field of a type that can hold arena pointers must make the derived impl unusable, whatever the
    struct style and however the where clause is assembled (no bound, a type parameter with the generated bound, an
    explicit bound, an explicit EMPTY bound).  The negative half of the derive shape space, as compile probes."""
    out = {}
    # (the last leaf is the positive twin: the same skeleton with a 'static field type must be accepted)
    leaves = {"gc": "Gc<'gc, u32>", "weak": "GcWeak<'gc, u32>", "vec": "Vec<Gc<'gc, u32>>", "cell": "std::cell::Cell<Option<Gc<'gc, u32>>>",
              "static_twin": "std::rc::Rc<u32>"}
    gens = {"none": ("", "<'gc>", "A<'gc>", None), "param": ("", "<'gc, T>", "A<'gc, u32>", "T"),
            "bound": (", bound = \"where T: Collect<'gc>\"", "<'gc, T>", "A<'gc, u32>", "T"),
            "empty_bound": (", bound = \"\"", "<'gc>", "A<'gc>", None)}
    for gname, (attr, params, inst, tparam) in gens.items():
        for lname, ty in leaves.items():
            for style in ("named", "tuple"):
                fields = ([("t", tparam)] if tparam else []) + [("p", "Gc<'gc, u32>"), ("x", ty)]
                if style == "named":
                    body = "{ " + ", ".join((f"#[collect(require_static)] {n}: {t}" if n == "x" else f"{n}: {t}") for n, t in fields) + " }"
                else:
                    body = "(" + ", ".join((f"#[collect(require_static)] {t}" if n == "x" else t) for n, t in fields) + ");"
                src = ("use gc_arena::{Collect, Gc, GcWeak};\n#[derive(Collect)]\n#[collect(no_drop" + attr + ")]\npub struct A" + params + " " + body
                       + "\npub fn use_it<'gc, T: Collect<'gc>>() {}\npub fn f<'gc>() { use_it::<'gc, " + inst + ">() }\n")
                out[f"neg_require_static_{gname}_{lname}_{style}"] = (src, lname == "static_twin")
    return out


DERIVE_PROBES.update(_neg_derive_matrix())

ASSERT = "use gc_arena::{Collect, Gc, GcWeak, Static};\npub fn is_collect<'gc, T: Collect<'gc> + ?Sized>() {}\n"
STATIC_IMPL_PROBES = {
    # impls with NEEDS_TRACE = false must not be instantiable with pointer-bearing parameters
    "cell_of_gc": (ASSERT + "pub fn f<'gc>() { is_collect::<'gc, std::cell::Cell<Gc<'gc, u32>>>() }\n", False),
    "cell_of_static_twin": (ASSERT + "pub fn f<'gc>() { is_collect::<'gc, std::cell::Cell<u32>>() }\n", True),
    "refcell_of_gc": (ASSERT + "pub fn f<'gc>() { is_collect::<'gc, std::cell::RefCell<Vec<Gc<'gc, u32>>>>() }\n", False),
    "refcell_of_static_twin": (ASSERT + "pub fn f<'gc>() { is_collect::<'gc, std::cell::RefCell<Vec<u32>>>() }\n", True),
    "static_ref_to_gc": (ASSERT + "pub fn f<'gc>() { is_collect::<'gc, &'static Gc<'gc, u32>>() }\n", False),
    "static_ref_twin": (ASSERT + "pub fn f<'gc>() { is_collect::<'gc, &'static str>() }\n", True),
    "static_wrapper_of_gc": (ASSERT + "pub fn f<'gc>() { is_collect::<'gc, Static<Gc<'gc, u32>>>() }\n", False),
    "static_wrapper_of_weak": (ASSERT + "pub fn f<'gc>() { is_collect::<'gc, Static<GcWeak<'gc, u32>>>() }\n", False),
    "static_wrapper_twin": (ASSERT + "pub fn f<'gc>() { is_collect::<'gc, Static<std::rc::Rc<u32>>>() }\n", True),
    "string_is_static_twin": (ASSERT + "pub fn f<'gc>() { is_collect::<'gc, String>() }\n", True),
    "hashmap_with_branded_hasher": (ASSERT + "pub struct H<'gc>(Gc<'gc, u32>);\npub fn f<'gc>() { is_collect::<'gc, std::collections::HashMap<u32, u32, H<'gc>>>() }\n", False),
}


def shapes_model(d):
    cfg = "SPECIFICATION Spec\nINVARIANTS Inv Emit\nCHECK_DEADLOCK FALSE\n"
    r = run_tlc("MC_TraceShape", cfg, "shape", d, workers=4, timeout=900, xmx="4g")
    if r["error"]:
        raise ToolError(f"TLC run MC_TraceShape failed: {r['error']} (see {r['out']})")
    f = os.path.join(d, "shape_grid.ndjson")
    n, _ = extract_behaviours(r["out"], f)
    os.remove(r["out"])
    r["behaviours"] = n
    return {"tlc": r, "grid": f}


def shapes_engine(tier, d, grid):
    import importlib.util
    spec = importlib.util.spec_from_file_location("render_shapes", os.path.join(ROOT, "gen", "render_shapes.py"))
    rs = importlib.util.module_from_spec(spec)
    spec.loader.exec_module(rs)
    t0 = time.time()
    gen = os.path.join(SHAPES, "src", "generated.rs")
    with Lock("cargo-shapes"):
        rs.render(grid, gen)
        lock_dst = os.path.join(SHAPES, "Cargo.lock")
        if not os.path.exists(lock_dst):
            import shutil
            shutil.copy(os.path.join(gcv.REPO, "Cargo.lock"), lock_dst)
        feature_sets = ["all"] if tier == "quick" else ["all", "", "hashbrown", "indexmap", "slotmap", "smallvec", "enum-map"]
        shapes = [json.loads(l) for l in open(grid)]
        runs = []
        for fs in feature_sets:
            cmd = ["cargo", "build", "--offline", "--quiet"] + (["--features", fs] if fs else [])
            p = subprocess.run(cmd, cwd=SHAPES, stdout=subprocess.PIPE, stderr=subprocess.STDOUT, text=True)
            if p.returncode != 0:
                # the generated program does not compile against this tree: a provided impl is gone or its
                # bounds changed.  That is not a property violation by itself (tool error).
                raise ToolError(f"generated shapes crate does not build (features '{fs}'):\n" + p.stdout[-2500:])
            q = subprocess.run([os.path.join(SHAPES, "target", "debug", "gcv-shapes")], stdout=subprocess.PIPE, stderr=subprocess.PIPE, text=True)
            obs_path = os.path.join(d, f"shape_obs_{fs or 'none'}.ndjson")
            crashed = q.returncode != 0
            n = 0
            with open(obs_path, "w") as f:
                for line in q.stdout.splitlines():
                    try:
                        o = json.loads(line)
                    except json.JSONDecodeError:
                        continue
                    f.write(json.dumps({"shape": shapes[o["id"]]["shape"], "obs": o}) + "\n")
                    n += 1
            cfg = "SPECIFICATION TSpec\nPOSTCONDITION Accepted\nCHECK_DEADLOCK FALSE\n"
            r = run_tlc("ShapeTrace", cfg, f"shapemon_{fs or 'none'}", d, workers=1, timeout=1200, env={"TRACE": obs_path}, deque=True, xmx="4g")
            txt = open(r["out"], errors="replace").read()
            m = re.search(r'^<<"VERDICT", (".*")>>$', txt, re.M)
            if not m or r["error"]:
                raise ToolError(f"ShapeTrace did not accept the observations: {r['error']} (see {r['out']})")
            v = json.loads(json.loads(m.group(1)))
            runs.append({"features": fs or "(default only)", "records": n, "crashed": crashed, "viol": v["viol"], "c15": v["c15"], "c16": v["c16"],
                         "obs": obs_path})
    build_sat()   # for the rlib the compile probes link against
    probes = {"C15": {}, "C16": {}}
    for prop, table in (("C15", DERIVE_PROBES), ("C16", STATIC_IMPL_PROBES)):
        for name, (src, expect_ok) in table.items():
            ok, diag = probe_compile(src, name, os.path.join(d, "probes"))
            probes[prop][name] = {"accepted": ok, "expected_accepted": expect_ok, "diag": "" if ok == expect_ok else diag[-500:]}
    return {"runs": runs, "probes": probes, "wall_s": round(time.time() - t0, 1)}


def check_shapes(prop, tier):
    t0 = time.time()
    files = ["TraceShape.tla", "MC_TraceShape.tla", "ShapeTrace.tla"]
    skey = gcv._hash_paths([os.path.join(SPEC, f) for f in files])[:16]
    model, md = memo("sat-shapes-model", skey, lambda d: shapes_model(d))
    tkey = gcv._hash_paths([os.path.join(gcv.REPO, p) for p in ("src", "derive/src", "derive/Cargo.toml", "Cargo.toml", "Cargo.lock")]
                           + [os.path.join(SPEC, f) for f in files] + [os.path.join(ROOT, "gen"), os.path.join(SHAPES, "src", "main.rs"),
                              os.path.join(SHAPES, "Cargo.toml"), os.path.join(ROOT, "runner", "engines_sat.py")])[:16] + f"-{tier}"
    res, d = memo("sat-shapes-" + tier, tkey, lambda dd: shapes_engine(tier, dd, model["grid"]))
    viols = []
    for run in res["runs"]:
        for x in run["viol"]:
            if x[0] == prop:
                viols.append({"rule": x[1], "index": x[2], "features": run["features"], "obs": run["obs"]})
            elif x[1].startswith("tool"):
                raise ToolError(f"shape outside the specification's space: {x}")
        if run["crashed"]:
            viols.append({"rule": "crash", "index": run["records"] + 1, "features": run["features"], "obs": run["obs"]})
    for name, pr in res["probes"][prop].items():
        if pr["expected_accepted"] and not pr["accepted"]:
            # a positive twin validates the probe skeleton: its rejection says the probe is wrong (or the crate's
            # surface changed), not that the property is broken
            raise ToolError(f"positive twin {name} was rejected: {pr['diag'][-300:]}")
        if pr["accepted"] != pr["expected_accepted"]:
            viols.append({"rule": "probe:" + name, "index": 0, "diag": pr["diag"]})
    os.makedirs(os.path.join(WORK, "replays"), exist_ok=True)
    for x in viols[:6]:
        rec = None
        if x["index"] and os.path.exists(x.get("obs", "")):
            with open(x["obs"]) as f:
                for k, line in enumerate(f, 1):
                    if k == x["index"]:
                        rec = json.loads(line)
        path = os.path.join(WORK, "replays", f"{prop}_shapes_{x['index']}_{x['rule'].replace(':', '-')}.json")
        json.dump({"property": prop, "engine": "shapes", "rule": f"{prop}.{x['rule']}", "record": rec, "detail": {k: v for k, v in x.items() if k != 'obs'}},
                  open(path, "w"), indent=1)
        print(f"VIOLATION property={prop} replay={path}")
    tl = model["tlc"]
    nrec = sum(r[prop.lower()] for r in res["runs"])
    samples = []
    if res["runs"] and os.path.exists(res["runs"][0]["obs"]):
        with open(res["runs"][0]["obs"]) as f:
            for k, line in enumerate(f):
                r_ = json.loads(line)
                is15 = r_["shape"]["kind"] in ("struct", "enum")
                if (prop == "C15") == is15 and k % 97 == 0 and len(samples) < 4:
                    samples.append(r_)
    cov = {
        "states": tl["distinct"], "transitions": tl["generated"],
        "traces_validated_against_impl": nrec - len([x for x in viols if x["index"]]),
        "samples": samples or [{"note": "no sample"}],
        "exhaustive": True,
        "evaluations": nrec, "distinct_nontrivial": res["runs"][0][prop.lower()],
        "rule": "every shape of TraceShape!Shapes (container x leaf per type parameter x element count; tuples of arity 1..16 with the "
                "pointer at every position; derived structs / enums x field leaves x require_static positions x generics) is enumerated by "
                "TLC, rendered to Rust, traced with a recording Trace implementation; shapes are distinct by construction",
        "feature_sets": [{k: r[k] for k in ("features", "records", "c15", "c16")} for r in res["runs"]],
        "compile_probes": {k: {kk: vv for kk, vv in v.items() if kk != "diag"} for k, v in res["probes"][prop].items()},
        "model_invariants_checked": ["LawOK (a type that claims to need no tracing reports nothing; empty homogeneous containers report nothing)"],
        "shared_run_memoised": res.get("memoised", False), "shared_run_wall_s": res["wall_s"],
        "checker_cmd": "tlc MC_TraceShape.tla ; gen/render_shapes.py ; cargo build (shapes) ; gcv-shapes ; tlc ShapeTrace.tla ; rustc probes",
    }
    write_evidence(prop, tier, "model_checking", cov, SHAPE_ASSUMPTIONS[prop], time.time() - t0, len(viols))
    return 1 if viols else 0


SHAPE_ASSUMPTIONS = {
    "C15": ["shapes: named / tuple / unit structs with up to 3 fields over 4 leaf kinds, every subset of require_static positions that type-checks, "
            "generic first field with and without a bound override; enums with unit / tuple / named variants and each active variant",
            "the derive's rejections are decided by rustc compile probes, each with an accepted twin; diagnostics are not matched textually"],
    "C16": ["depth: containers of leaves, where a leaf may itself be Option<Gc>, Vec<Gc> or Box<GcWeak>; element counts 0..3; tuples of arity 1..16",
            "quick tier builds all optional features at once; the thorough tier also builds each feature alone and none",
            "'impls that claim no tracing exist only for pointer-free types' is decided by compile probes with accepted twins"],
}


# ============================================================================= WriteCap (C13)
PT = "RefLock<Option<Gc<'gc, u32>>>"
WC_HEAD = "use gc_arena::{Gc, RefLock, barrier::{Write, field, Unlock}};\nuse std::cell::RefCell;\n"
WRITE_FACT_PROBES = {
    # fact name: probe source; the fact is TRUE iff the probe is accepted
    "FromMut": WC_HEAD + f"pub fn f<'a, 'gc>(x: &'a mut {PT}) -> &'a mut Write<{PT}> {{ Write::from_mut(x) }}\n",
    "FromStaticAny": WC_HEAD + f"pub fn f<'a, 'gc>(x: &'a {PT}) -> &'a Write<{PT}> {{ Write::from_static(x) }}\n",
    "AssumeSafe": WC_HEAD + f"pub fn f<'a, 'gc>(x: &'a {PT}) -> &'a Write<{PT}> {{ Write::assume(x) }}\n",
    "DerefRef": WC_HEAD + f"pub fn f<'a, 'b, 'gc>(w: &'a Write<&'b {PT}>) -> &'a Write<{PT}> {{ w.as_deref() }}\n",
    "DerefBox": WC_HEAD + f"pub fn f<'a, 'gc>(w: &'a Write<Box<{PT}>>) -> &'a Write<{PT}> {{ w.as_deref() }}\n",
    "DerefVec": WC_HEAD + f"pub fn f<'a, 'gc>(w: &'a Write<Vec<{PT}>>) -> &'a Write<[{PT}]> {{ w.as_deref() }}\n",
    "DerefRc": WC_HEAD + f"pub fn f<'a, 'gc>(w: &'a Write<std::rc::Rc<{PT}>>) -> &'a Write<{PT}> {{ w.as_deref() }}\n",
    "DerefArc": WC_HEAD + f"pub fn f<'a, 'gc>(w: &'a Write<std::sync::Arc<{PT}>>) -> &'a Write<{PT}> {{ w.as_deref() }}\n",
    "IndexUnique": WC_HEAD + f"pub fn f<'a, 'gc>(w: &'a Write<Vec<{PT}>>) -> &'a Write<{PT}> {{ &w[0] }}\n",
    **{f"IndexUserImpl_{k}": WC_HEAD + "use std::ops::Index;\n" + f"pub type Slot<'gc> = {PT};\npub struct Alias<'a, 'gc>(pub &'a Slot<'gc>);\n"
       "impl<'a, 'gc> Index<Alias<'a, 'gc>> for [Slot<'gc>] { type Output = Slot<'gc>; fn index(&self, i: Alias<'a, 'gc>) -> &Slot<'gc> { todo!() } }\n"
       + f"pub fn f<'a, 'gc>(w: &'a Write<{ty}>, i: Alias<'a, 'gc>) -> &'a Write<Slot<'gc>> {{ &w[i] }}\n"
       for k, ty in (("array", "[Slot<'gc>; 1]"), ("slice", "[Slot<'gc>]"), ("vec", "Vec<Slot<'gc>>"))},
    "FieldThroughDeref": WC_HEAD + f"pub struct S<'gc> {{ pub f: {PT} }}\npub fn f<'a, 'gc>(w: &'a Write<Box<S<'gc>>>) -> &'a Write<{PT}> {{ field!(w, S, f) }}\n",
    "FieldThroughRef": WC_HEAD + f"pub struct S<'gc> {{ pub f: {PT} }}\npub fn f<'a, 'b, 'gc>(w: &'a Write<&'b S<'gc>>) -> &'a Write<{PT}> {{ field!(w, S, f) }}\n",
    "UnlockNoWrite": WC_HEAD + f"pub fn f<'a, 'gc>(l: &'a {PT}) -> &'a RefCell<Option<Gc<'gc, u32>>> {{ l.unlock_unchecked() }}\n",
    "UnlockNoWrite2": WC_HEAD + f"pub fn f<'a, 'gc>(l: &'a {PT}) -> &'a RefCell<Option<Gc<'gc, u32>>> {{ l.as_ref_cell() }}\n",
    "CellHoldsGc": "use gc_arena::{Collect, Gc};\npub fn is_collect<'gc, T: Collect<'gc>>() {}\npub fn f<'gc>() { is_collect::<'gc, std::cell::Cell<Option<Gc<'gc, u32>>>>() }\n",
    "RefCellHoldsGc": "use gc_arena::{Collect, Gc};\npub fn is_collect<'gc, T: Collect<'gc>>() {}\npub fn f<'gc>() { is_collect::<'gc, std::cell::RefCell<Option<Gc<'gc, u32>>>>() }\n",
    # ... nor through a derived type that skips the field (require_static), however its where clause is written
    "RefCellHoldsGcDerived": "use gc_arena::{Collect, Gc};\n#[derive(Collect)]\n#[collect(no_drop)]\npub struct H<'gc> { #[collect(require_static)] slot: std::cell::RefCell<Option<Gc<'gc, u32>>> }\npub fn is_collect<'gc, T: Collect<'gc>>() {}\npub fn f<'gc>() { is_collect::<'gc, H<'gc>>() }\n",
    "RefCellHoldsGcDerivedBound": "use gc_arena::{Collect, Gc};\n#[derive(Collect)]\n#[collect(no_drop, bound = \"\")]\npub struct H<'gc> { #[collect(require_static)] slot: std::cell::RefCell<Option<Gc<'gc, u32>>> }\npub fn is_collect<'gc, T: Collect<'gc>>() {}\npub fn f<'gc>() { is_collect::<'gc, H<'gc>>() }\n",
    # ... nor through static_collect! (which claims NEEDS_TRACE = false): its generic form must demand 'static of the TYPE
    "StaticCollectGenericHoldsGc": "use gc_arena::{Collect, Gc, static_collect};\npub struct Slot<'gc, T>(pub std::cell::Cell<Option<Gc<'gc, T>>>);\nstatic_collect!(<T> Slot<'gc, T>);\npub fn is_collect<'gc, T: Collect<'gc>>() {}\npub fn f<'gc>() { is_collect::<'gc, Slot<'gc, u32>>() }\n",
    "StaticCollectPlainHoldsGc": "use gc_arena::{Collect, Gc, static_collect};\npub struct Slot<'gc>(pub std::cell::Cell<Option<Gc<'gc, u32>>>);\nstatic_collect!(Slot<'gc>);\npub fn is_collect<'gc, T: Collect<'gc>>() {}\npub fn f<'gc>() { is_collect::<'gc, Slot<'gc>>() }\n",
    "StaticCollectGenericStaticTwin": "use gc_arena::{Collect, static_collect};\npub struct Wrap<T>(pub std::cell::Cell<Option<T>>);\nstatic_collect!(<T> Wrap<T> where T: 'static);\npub fn is_collect<'gc, T: Collect<'gc>>() {}\npub fn f<'gc>() { is_collect::<'gc, Wrap<u32>>() }\n",
    "AsWriteOption": WC_HEAD + f"pub fn f<'a, 'gc>(w: &'a Write<Option<{PT}>>) -> Option<&'a Write<{PT}>> {{ w.as_write() }}\n",
    # positive twins of the projection machinery (must stay usable)
    "FieldDirect": WC_HEAD + f"pub struct S<'gc> {{ pub f: {PT} }}\npub fn f<'a, 'gc>(w: &'a Write<S<'gc>>) -> &'a Write<{PT}> {{ field!(w, S, f) }}\n",
    "UnlockWithWrite": WC_HEAD + f"pub fn f<'a, 'gc>(w: &'a Write<{PT}>) -> &'a RefCell<Option<Gc<'gc, u32>>> {{ w.unlock() }}\n",
}
# facts the property statement forbids outright (each is a clause of C13)
FORBIDDEN_FACTS = {"FromStaticAny": "Write references cannot be forged for data that may hold pointers (from_static)",
                   "AssumeSafe": "Write references cannot be forged (assume must be unsafe)",
                   "FieldThroughDeref": "field projection cannot pass through a dereference (Box)",
                   "FieldThroughRef": "field projection cannot pass through a dereference (&)",
                   "UnlockNoWrite": "unlocking needs a Write reference (unlock_unchecked must be unsafe)",
                   "UnlockNoWrite2": "unlocking needs a Write reference (as_ref_cell must be unsafe)",
                   "CellHoldsGc": "plain Cell cannot hold pointers", "RefCellHoldsGc": "plain RefCell cannot hold pointers",
                   "StaticCollectGenericHoldsGc": "plain Cell cannot hold pointers (through the generic form of static_collect!)",
                   "StaticCollectPlainHoldsGc": "plain Cell cannot hold pointers (through static_collect!)",
                   "RefCellHoldsGcDerived": "plain RefCell cannot hold pointers (as a require_static field of a derived type)",
                   "RefCellHoldsGcDerivedBound": "plain RefCell cannot hold pointers (as a require_static field of a derived type with an explicit bound)",
                   "IndexUserImpl_array": "Write references cannot be forged: indexing a Write<[T; N]> with a client-written Index impl",
                   "IndexUserImpl_slice": "Write references cannot be forged: indexing a Write<[T]> with a client-written Index impl",
                   "IndexUserImpl_vec": "Write references cannot be forged: indexing a Write<Vec<T>> with a client-written Index impl"}
REQUIRED_FACTS = ["FromMut", "DerefBox", "DerefVec", "IndexUnique", "AsWriteOption", "FieldDirect", "UnlockWithWrite",
                  "StaticCollectGenericStaticTwin"]

EXPLOIT_PRELUDE = """
use gc_arena::{Arena, Collect, Gc, RefLock, Rootable, barrier::Write};
use std::{cell::Cell, rc::Rc, sync::Arc};
pub struct Tok(Rc<Cell<bool>>);
impl Drop for Tok { fn drop(&mut self) { self.0.set(true); } }
gc_arena::static_collect!(Tok);
type Slot<'gc> = RefLock<Option<Gc<'gc, Tok>>>;
fn verdict(dropped: bool, count: usize, expect: usize) -> ! {
    // the adopted value is still reachable from the root: it must not have been destructed
    if dropped || count < expect { println!("UNSOUND dropped={dropped} count={count} expected>={expect}"); std::process::exit(3) }
    println!("sound"); std::process::exit(0)
}
"""
EXPLOITS = {
    "Ref": EXPLOIT_PRELUDE + """
#[derive(Collect)] #[collect(no_drop)] struct Root<'gc> { slot: Gc<'gc, Slot<'gc>> }
fn main() {
    let flag = Rc::new(Cell::new(false));
    let mut arena = Arena::<Rootable![Root<'_>]>::new(|mc| Root { slot: Gc::new(mc, RefLock::new(None)) });
    arena.finish_marking();                       // the slot object is now black
    let f2 = flag.clone();
    arena.mutate(|mc, root| {
        let mut r: &Slot<'_> = Gc::as_ref(root.slot);        // no barrier
        let w = Write::from_mut(&mut r).as_deref();          // &Write<Slot> for an un-barriered object
        *w.unlock().borrow_mut() = Some(Gc::new(mc, Tok(f2)));
    });
    arena.finish_cycle();
    let n = arena.metrics().total_gc_count();
    verdict(flag.get(), n, 2)
}
""",
    "Rc": EXPLOIT_PRELUDE + """
#[derive(Collect)] #[collect(no_drop)] struct Root<'gc> { holder: Gc<'gc, Rc<Slot<'gc>>> }
fn main() {
    let flag = Rc::new(Cell::new(false));
    let mut arena = Arena::<Rootable![Root<'_>]>::new(|mc| Root { holder: Gc::new(mc, Rc::new(RefLock::new(None))) });
    arena.finish_marking();                       // the holder is now black
    let f2 = flag.clone();
    arena.mutate(|mc, root| {
        let mut rc: Rc<Slot<'_>> = Rc::clone(&root.holder);   // shares storage with the black holder; no barrier
        let w = Write::from_mut(&mut rc).as_deref();
        *w.unlock().borrow_mut() = Some(Gc::new(mc, Tok(f2)));
    });
    arena.finish_cycle();
    let n = arena.metrics().total_gc_count();
    verdict(flag.get(), n, 2)
}
""",
    "Arc": EXPLOIT_PRELUDE + """
#[derive(Collect)] #[collect(no_drop)] struct Root<'gc> { holder: Gc<'gc, Arc<Slot<'gc>>> }
fn main() {
    let flag = Rc::new(Cell::new(false));
    let mut arena = Arena::<Rootable![Root<'_>]>::new(|mc| Root { holder: Gc::new(mc, Arc::new(RefLock::new(None))) });
    arena.finish_marking();
    let f2 = flag.clone();
    arena.mutate(|mc, root| {
        let mut a: Arc<Slot<'_>> = Arc::clone(&root.holder);
        let w = Write::from_mut(&mut a).as_deref();
        *w.unlock().borrow_mut() = Some(Gc::new(mc, Tok(f2)));
    });
    arena.finish_cycle();
    let n = arena.metrics().total_gc_count();
    verdict(flag.get(), n, 2)
}
""",
    # positive twin: the same adoption through the sanctioned path must be sound (and compile)
    "Sanctioned": EXPLOIT_PRELUDE + """
#[derive(Collect)] #[collect(no_drop)] struct Root<'gc> { slot: Gc<'gc, Slot<'gc>>, boxed: Gc<'gc, Box<Slot<'gc>>> }
fn main() {
    let flag = Rc::new(Cell::new(false));
    let mut arena = Arena::<Rootable![Root<'_>]>::new(|mc| Root { slot: Gc::new(mc, RefLock::new(None)), boxed: Gc::new(mc, Box::new(RefLock::new(None))) });
    arena.finish_marking();
    let f2 = flag.clone();
    arena.mutate(|mc, root| {
        *Gc::write(mc, root.slot).unlock().borrow_mut() = Some(Gc::new(mc, Tok(f2.clone())));
        *Gc::write(mc, root.boxed).as_deref().unlock().borrow_mut() = Some(Gc::new(mc, Tok(f2)));
    });
    arena.finish_cycle();
    let n = arena.metrics().total_gc_count();
    verdict(flag.get(), n, 4)
}
""",
}


def run_program(src, name, outdir):
    """Compile a client program against the built rlib and run it.  Returns (compiled, exit code, output)."""
    rlib, deps = rlib_paths()
    os.makedirs(outdir, exist_ok=True)
    path = os.path.join(outdir, name + ".rs")
    with open(path, "w") as f:
        f.write(src)
    exe = os.path.join(outdir, name + ".bin")
    p = subprocess.run(["rustc", "--edition", "2024", "-o", exe, "--extern", f"gc_arena={rlib}", "-L", f"dependency={deps}",
                        "--cap-lints", "allow", "--error-format=short", path], stdout=subprocess.PIPE, stderr=subprocess.PIPE, text=True)
    if p.returncode != 0:
        return False, None, p.stderr[-800:], path
    q = subprocess.run([exe], stdout=subprocess.PIPE, stderr=subprocess.PIPE, text=True, timeout=120)
    return True, q.returncode, (q.stdout + q.stderr)[-400:], path


def check_writecap(tier):
    prop = "C13"
    t0 = time.time()
    d = os.path.join(WORK, "sat-C13")
    os.makedirs(d, exist_ok=True)
    build_sat()
    # (1) measure the facts
    facts, diags = {}, {}
    for name, src in WRITE_FACT_PROBES.items():
        facts[name], diags[name] = probe_compile(src, "wc_" + name, os.path.join(d, "probes"))
    viols = []
    for f in REQUIRED_FACTS:
        if not facts[f]:
            raise ToolError(f"probe for the sanctioned move {f} is rejected: the probes no longer match the API ({diags[f][-300:]})")
    for f, clause in FORBIDDEN_FACTS.items():
        if facts[f]:
            viols.append({"rule": "fact:" + f, "what": clause, "program": os.path.join(d, "probes", "wc_" + f + ".rs")})
    # (2) TLC: with the measured facts, is there a sequence of moves that yields an un-barriered capability?
    consts = {k: ("TRUE" if facts[k] else "FALSE") for k in
              ("FromMut", "FromStaticAny", "AssumeSafe", "DerefRef", "DerefBox", "DerefVec", "DerefRc", "DerefArc", "IndexUnique",
               "AsWriteOption")}
    consts["IndexUserImpl"] = "TRUE" if any(facts[f"IndexUserImpl_{k}"] for k in ("array", "slice", "vec")) else "FALSE"
    consts["FieldThroughDeref"] = "TRUE" if (facts["FieldThroughDeref"] or facts["FieldThroughRef"]) else "FALSE"
    consts["UnlockNoWrite"] = "TRUE" if (facts["UnlockNoWrite"] or facts["UnlockNoWrite2"]) else "FALSE"
    consts["CellHoldsGc"] = "TRUE" if (facts["CellHoldsGc"] or facts["RefCellHoldsGc"]) else "FALSE"
    tlc_runs, recipes = [], []
    # one run per suspect non-owning container kind (BFS stops at the first counterexample), plus the full run
    for label, override in [("measured", {})] + [(f"only_{k}", {kk: "FALSE" for kk in ("DerefRef", "DerefRc", "DerefArc") if kk != k})
                                                 for k in ("DerefRef", "DerefRc", "DerefArc") if facts[k]]:
        c2 = dict(consts)
        c2.update(override)
        r = run_tlc("WriteCap", gcv.cfg_text(spec="Spec", constants=c2, invariants=["C13_NoUnbarrieredAdoption"], constraints=["Bounded"]),
                    "wc_" + label, d, workers=2, timeout=600, xmx="2g")
        txt = open(r["out"], errors="replace").read()
        rec = re.findall(r'recipe = (<<.*?>>)\n', txt, re.S)
        tlc_runs.append({"name": label, "distinct": r["distinct"], "generated": r["generated"], "error": r["error"]})
        if r["error"] and "violated" in r["error"]:
            recipes.append({"config": label, "recipe": re.sub(r"\s+", " ", rec[-1]) if rec else "?"})
        elif r["error"]:
            raise ToolError(f"TLC run WriteCap/{label} failed: {r['error']} (see {r['out']})")
    # (3) render the recipes the model found: run the exploit program of each non-owning kind whose
    #     as_deref compiles; VIOLATION iff it compiles AND the adopted value is lost while reachable
    programs = {}
    for k, fact in (("Ref", "DerefRef"), ("Rc", "DerefRc"), ("Arc", "DerefArc")):
        compiled, rc, out, path = run_program(EXPLOITS[k], "exploit_" + k, os.path.join(d, "programs"))
        programs[k] = {"compiled": compiled, "exit": rc, "fact": facts[fact]}
        if compiled and rc != 0:
            viols.append({"rule": "exploit:" + k, "what": f"Write::from_mut(&mut {k}).as_deref().unlock() adopted a pointer into an un-barriered marked object; {out.strip()[-200:]}",
                          "program": path})
        if compiled != facts[fact]:
            raise ToolError(f"exploit template {k} and fact probe {fact} disagree (compiled={compiled}, fact={facts[fact]})")
    compiled, rc, out, path = run_program(EXPLOITS["Sanctioned"], "sanctioned", os.path.join(d, "programs"))
    programs["Sanctioned"] = {"compiled": compiled, "exit": rc}
    if not compiled:
        raise ToolError("the sanctioned-path program does not compile: " + out)
    if rc != 0:
        viols.append({"rule": "sanctioned", "what": "adoption through Gc::write(..).unlock() / as_deref(Box) lost the value: " + out.strip()[-200:], "program": path})
    if recipes and not [v for v in viols]:
        # the model says the measured facts admit an un-barriered capability, but no rendered program misbehaved
        raise ToolError(f"WriteCap finds a recipe that no template renders: {recipes}")
    os.makedirs(os.path.join(WORK, "replays"), exist_ok=True)
    for x in viols[:6]:
        path = os.path.join(WORK, "replays", f"C13_writecap_{x['rule'].replace(':', '-')}.json")
        json.dump({"property": prop, "engine": "writecap", "rule": "C13." + x["rule"], "detail": x, "recipes": recipes}, open(path, "w"), indent=1)
        print(f"VIOLATION property={prop} replay={path}")
    cov = {
        "evaluations": len(WRITE_FACT_PROBES) + len(programs), "distinct_nontrivial": len(WRITE_FACT_PROBES) + len(programs),
        "rule": "one compile probe per atomic fact of the capability model (each constructor of Write, each DerefWrite / IndexWrite impl kind, "
                "field! through a dereference, unlocking without a Write, Cell / RefCell as Collect) with accepted twins; TLC searches all move "
                "sequences up to length 5 over the measured facts; one executable program per non-owning container kind plus a sanctioned-path twin",
        "samples": [{"fact": k, "compiles": v} for k, v in list(facts.items())[:6]] + [{"program": k, **v} for k, v in programs.items()],
        "states": sum(r["distinct"] for r in tlc_runs), "transitions": sum(r["generated"] for r in tlc_runs),
        "facts_measured": facts, "tlc_runs": tlc_runs, "recipes_found_by_tlc": recipes, "exploit_programs": programs,
        "programs": len(programs) + len(WRITE_FACT_PROBES), "disagreements_checked": len(programs),
        "traces_validated_against_impl": len(programs),
        "checker_cmd": "rustc probes ; tlc WriteCap.tla (constants = measured facts) ; rustc + run exploit programs",
    }
    write_evidence(prop, tier, "exploration", cov, [
        "WriteCap.tla models the API's intended capability discipline, not rustc: it decides 'given these facts no chain of <= 5 moves yields an "
        "un-barriered Write'; the universal claim over all safe programs rests on the probes being the right facts",
        "a recipe is a violation only if its rendered program compiles and loses a reachable value at run time; flipped facts that the "
        "property statement forbids by name (forged Write, field! through a dereference, unlock without Write, Cell/RefCell holding pointers) "
        "are violations by themselves"], time.time() - t0, len(viols))
    return 1 if viols else 0


# ============================================================================= Brand (C12)
BR_HEAD = """#![allow(unused)]
use gc_arena::{Arena, Collect, DynamicRoot, DynamicRootSet, Finalization, Gc, GcWeak, Mutation, RefLock, Rootable, Static,
               barrier::Write, lock::Lock, zst_cache::ZstCache};
#[derive(Collect)]
#[collect(no_drop)]
pub struct R<'gc> { pub p: Gc<'gc, i32>, pub slot: Gc<'gc, Lock<Option<Gc<'gc, i32>>>>, pub set: DynamicRootSet<'gc> }
pub type A = Arena<Rootable![R<'_>]>;
pub fn new_arena() -> A { A::new(|mc| R { p: Gc::new(mc, 1), slot: Gc::new(mc, Lock::new(None)), set: DynamicRootSet::new(mc) }) }
pub fn is_send<T: Send>() {}
pub fn is_sync<T: Sync>() {}
"""
BRANDED = {  # name: (type with lifetime 'x, as function of the lifetime name)
    "Gc": "Gc<{l}, i32>", "GcWeak": "GcWeak<{l}, i32>", "GcRefLock": "Gc<{l}, RefLock<i32>>", "MutationRef": "&'r Mutation<{l}>",
    "FinalizationRef": "&'r Finalization<{l}>", "DynamicRootSet": "DynamicRootSet<{l}>", "GcBuilder": "gc_arena::GcBuilder<{l}, i32>",
    "ZstCache": "ZstCache<{l}, 8>", "Root": "R<{l}>", "GcSlice": "gc_arena::GcSlice<{l}, u8>", "GcThinStr": "gc_arena::GcThinStr<{l}>",
}
AUTO = {"Gc": "Gc<'static, i32>", "GcWeak": "GcWeak<'static, i32>", "Mutation": "Mutation<'static>", "Finalization": "Finalization<'static>",
        "DynamicRootSet": "DynamicRootSet<'static>", "Arena": "A", "WriteOfGc": "Write<Gc<'static, i32>>", "GcRef": "&'static Gc<'static, i32>",
        "Metrics": "gc_arena::metrics::Metrics", "MarkedArena": "gc_arena::arena::MarkedArena<'static, Rootable![R<'_>]>"}

SLOT_VARIANCE = {   # writable slots must be invariant in the value type (both directions rejected)
    "GcBuilder": "gc_arena::GcBuilder<'gc, Static<&{l} i32>>",
    "GcSliceBuilder": "gc_arena::GcSliceBuilder<'gc, Static<&{l} i32>>",
    "GcSliceWithHeaderBuilder_header": "gc_arena::GcSliceWithHeaderBuilder<'gc, Static<&{l} i32>, u8>",
    "GcSliceWithHeaderBuilder_element": "gc_arena::GcSliceWithHeaderBuilder<'gc, u8, Static<&{l} i32>>",
}
BUILDER_EXPLOIT = """
use gc_arena::{Arena, Collect, Gc, GcBuilder, Rootable, Static};
use std::{cell::Cell, rc::Rc};
pub struct Tok(Rc<Cell<bool>>, u32);
impl Drop for Tok { fn drop(&mut self) { self.0.set(true); self.1 = 0xDEAD; } }
gc_arena::static_collect!(Tok);
#[derive(Collect)]
#[collect(no_drop)]
struct Root<'gc> { obj: Option<Gc<'gc, Tok>>, r: Option<Gc<'gc, &'gc Tok>> }
fn main() {
    let flag = Rc::new(Cell::new(false));
    let f2 = flag.clone();
    let mut arena = Arena::<Rootable![Root<'_>]>::new(|mc| Root { obj: Some(Gc::new(mc, Tok(f2, 7))), r: None });
    arena.mutate_root(|mc, root| {
        let b: GcBuilder<'_, Static<&'static Tok>> = GcBuilder::new();
        let b: GcBuilder<'_, Static<&Tok>> = b;
        let b = b.unwrap_static();
        let r: &Tok = Gc::as_ref(root.obj.unwrap());
        root.r = Some(b.write(mc, r));
        root.obj = None;
    });
    arena.finish_cycle();
    arena.finish_cycle();
    let dropped = flag.get();
    println!("referent destructed while a stored &'gc reference to it is reachable: {dropped}");
    std::process::exit(if dropped { 3 } else { 0 });
}
"""

ESCAPES = {
    # every one of these must be REJECTED
    "return_gc_from_mutate": "pub fn f(a: &A) { let _g = a.mutate(|mc, root| root.p); }",
    "return_new_gc_from_mutate": "pub fn f(a: &A) { let _g = a.mutate(|mc, _| Gc::new(mc, 5)); }",
    "return_weak_from_mutate": "pub fn f(a: &A) { let _g = a.mutate(|mc, root| Gc::downgrade(root.p)); }",
    "return_ref_from_mutate": "pub fn f(a: &A) { let _r: &i32 = a.mutate(|mc, root| Gc::as_ref(root.p)); }",
    "return_mutation_from_mutate": "pub fn f(a: &A) { let _m = a.mutate(|mc, _| mc); }",
    "return_root_ref_from_mutate": "pub fn f(a: &A) { let _m = a.mutate(|_, root| root); }",
    "return_set_from_mutate": "pub fn f(a: &A) { let _s = a.mutate(|_, root| root.set); }",
    "return_write_from_mutate": "pub fn f(a: &A) { let _w = a.mutate(|mc, root| Gc::write(mc, root.slot)); }",
    "capture_assign_gc": "pub fn f(a: &A) { let mut out = None; a.mutate(|mc, root| { out = Some(root.p); }); }",
    "capture_refcell_gc": "pub fn f(a: &A) { let out = std::cell::RefCell::new(None); a.mutate(|mc, root| { *out.borrow_mut() = Some(root.p); }); }",
    "capture_vec_push": "pub fn f(a: &A) { let mut v = Vec::new(); a.mutate(|mc, root| { v.push(Gc::new(mc, 1)); }); }",
    "thread_local_store": "thread_local! { static S: std::cell::RefCell<Option<Gc<'static, i32>>> = const { std::cell::RefCell::new(None) }; }\npub fn f(a: &A) { a.mutate(|mc, root| { S.with(|s| *s.borrow_mut() = Some(root.p)); }); }",
    "thread_spawn": "pub fn f(a: &A) { a.mutate(|mc, root| { let g = root.p; std::thread::spawn(move || { let _x = *g; }); }); }",
    "thread_scope": "pub fn f(a: &A) { a.mutate(|mc, root| { let g = root.p; std::thread::scope(|s| { s.spawn(|| { let _x = *g; }); }); }); }",
    "cross_arena_store": "pub fn f(a: &A, b: &A) { a.mutate(|mc1, r1| { b.mutate(|mc2, r2| { r2.slot.set(mc2, Some(r1.p)); }); }); }",
    "cross_arena_alloc": "pub fn f(a: &A, b: &A) { a.mutate(|mc1, r1| { b.mutate(|mc2, r2| { r1.slot.set(mc1, Some(Gc::new(mc2, 3))); }); }); }",
    "cross_arena_mutation_context": "pub fn f(a: &A, b: &A) { a.mutate(|mc1, r1| { b.mutate(|mc2, r2| { r2.slot.set(mc1, None); }); }); }",
    # the brand-mixing matrix: every entry point that takes a context (Mutation / Finalization) TOGETHER with a branded
    # pointer must reject a context of another arena (x = arena 1's pointer, mc2 / fc2 = arena 2's context)
    **{f"cross_arena_api_{k}": "pub fn f(a: &A, b: &A) { a.mutate(|mc1, r1| { b.mutate(|mc2, r2| { " + body + " }); }); }"
       for k, body in {
           "upgrade": "let w = Gc::downgrade(r1.p); let _ = w.upgrade(mc2);",
           "write": "let _ = Gc::write(mc2, r1.slot);",
           "lock_set": "r1.slot.set(mc2, None);",
           "unlock": "let _ = r1.slot.unlock(mc2);",
           "stash": "let _h = r1.set.stash::<Static<i32>>(mc2, Gc::new(mc2, Static(3)));",
           "stash_foreign_value": "let _h = r2.set.stash::<Static<i32>>(mc2, Gc::new(mc1, Static(3)));",
           "backward_barrier": "mc2.backward_barrier(Gc::erase(r1.slot), None);",
           "forward_barrier": "mc2.forward_barrier(None, Gc::erase(r1.p));",
           "backward_barrier_weak": "mc2.backward_barrier_weak(Gc::erase(r2.slot), Gc::downgrade(Gc::erase(r1.p)));",
           "zst_alloc": "let c = ZstCache::<8>::new(mc1); let _z: Gc<'_, ()> = c.alloc(mc2, ());",
       }.items()},
    **{f"cross_arena_fin_{k}": "pub fn f(a: &mut A, b: &A) { if let Some(m) = a.finish_marking() { m.finalize(|fc1, r1| { b.mutate(|mc2, r2| { " + body + " }); }); } }"
       for k, body in {
           "is_dead": "let _ = Gc::is_dead(fc1, r2.p);",
           "resurrect": "Gc::resurrect(fc1, r2.p);",
           "weak_resurrect": "let _ = Gc::downgrade(r2.p).resurrect(fc1);",
           "weak_is_dead": "let _ = Gc::downgrade(r2.p).is_dead(fc1);",
       }.items()},
    "cross_arena_stash": "pub fn f(a: &A, b: &A) { a.mutate(|mc1, r1| { b.mutate(|mc2, r2| { let _h = r2.set.stash::<Static<i32>>(mc2, unsafe_free(r1.p)); }); }); }\nfn unsafe_free<'gc>(g: Gc<'gc, i32>) -> Gc<'gc, Static<i32>> { todo!() }",
    "new_arena_with_foreign_pointer": "pub fn f(a: &A) { a.mutate(|mc, root| { let _b = A::new(|mc2| R { p: root.p, slot: Gc::new(mc2, Lock::new(None)), set: DynamicRootSet::new(mc2) }); }); }",
    "map_root_with_foreign_pointer": "pub fn f(a: &A, b: A) { a.mutate(|mc, root| { let _b2 = b.map_root::<Rootable![R<'_>]>(|mc2, mut r| { r.p = root.p; r }); }); }",
    "finalize_returns_gc": "pub fn f(a: &mut A) { if let Some(m) = a.finish_marking() { let _g = m.finalize(|fc, root| root.p); } }",
    "finalize_returns_fc": "pub fn f(a: &mut A) { if let Some(m) = a.finish_marking() { let _g = m.finalize(|fc, root| fc); } }",
    "rootless_returns_gc": "pub fn f() { let _g = gc_arena::arena::rootless_mutate(|mc| Gc::new(mc, 1)); }",
    "try_new_err_with_gc": "pub fn f() { let _r = A::try_new(|mc| Err::<R<'_>, _>(Gc::new(mc, 1))); }",
    "try_map_root_err_with_gc": "pub fn f(a: A) { let _r = a.try_map_root::<Rootable![R<'_>], _>(|mc, r| Err::<R<'_>, _>(r.p)); }",
    "mutate_root_returns_root": "pub fn f(a: &mut A) { let _r = a.mutate_root(|mc, root| root); }",
    "root_with_ref_field": "#[derive(Collect)]\n#[collect(no_drop)]\npub struct R2<'gc> { pub r: &'gc i32, pub p: Gc<'gc, i32> }\npub fn f() { let mut a = Arena::<Rootable![R2<'_>]>::new(|mc| { let p = Gc::new(mc, 1); R2 { r: Gc::as_ref(p), p } }); a.finish_cycle(); }",
    "root_with_require_static_ref_field": "#[derive(Collect)]\n#[collect(no_drop)]\npub struct R3<'gc> { #[collect(require_static)] pub stash: std::cell::Cell<Option<&'gc i32>>, pub p: Gc<'gc, i32> }\npub fn f() { let mut a = Arena::<Rootable![R3<'_>]>::new(|mc| R3 { stash: std::cell::Cell::new(None), p: Gc::new(mc, 1) }); a.mutate(|_, r| r.stash.set(Some(Gc::as_ref(r.p)))); a.finish_cycle(); }",
    "root_with_require_static_ref_field_and_bound": "#[derive(Collect)]\n#[collect(no_drop, bound = \"\")]\npub struct R3<'gc> { #[collect(require_static)] pub stash: std::cell::Cell<Option<&'gc i32>>, pub p: Gc<'gc, i32> }\npub fn f() { let mut a = Arena::<Rootable![R3<'_>]>::new(|mc| R3 { stash: std::cell::Cell::new(None), p: Gc::new(mc, 1) }); a.mutate(|_, r| r.stash.set(Some(Gc::as_ref(r.p)))); a.finish_cycle(); }",
    "root_with_static_wrapped_gc": "pub fn f() { let mut a = Arena::<Rootable![Static<Gc<'_, i32>>]>::new(|mc| Static(Gc::new(mc, 1))); a.finish_cycle(); }",
    "root_with_leaked_static_ref": "pub fn f() { let mut a = Arena::<Rootable![&'static Gc<'_, i32>]>::new(|mc| Box::leak(Box::new(Gc::new(mc, 4)))); a.finish_cycle(); }",
    "dynamic_root_fetch_unbranded": "pub fn f(a: &A, h: &DynamicRoot<Static<i32>>) { let _g = a.mutate(|mc, root| root.set.fetch(h)); }",
    "store_gc_in_static_via_from_ptr_safe": "pub fn f(p: *const i32) { let _g: Gc<'static, i32> = Gc::from_ptr(p); }",
}
ESCAPE_TWINS = {
    # the same shapes with legitimate content must be ACCEPTED
    "return_plain_data": "pub fn f(a: &A) -> i32 { a.mutate(|mc, root| *root.p) }",
    "store_in_root": "pub fn f(a: &mut A) { a.mutate_root(|mc, root| { root.p = Gc::new(mc, 7); }); }",
    "store_in_object": "pub fn f(a: &A) { a.mutate(|mc, root| { root.slot.set(mc, Some(Gc::new(mc, 9))); }); }",
    "stash_and_return_handle": "pub fn f(a: &A) -> DynamicRoot<Static<i32>> { a.mutate(|mc, root| root.set.stash::<Static<i32>>(mc, Gc::new(mc, Static(3)))) }",
    "fetch_in_later_callback": "pub fn f(a: &A, h: &DynamicRoot<Static<i32>>) -> i32 { a.mutate(|mc, root| root.set.fetch(h).0) }",
    "two_arenas_side_by_side": "pub fn f(a: &A, b: &A) -> i32 { a.mutate(|mc1, r1| b.mutate(|mc2, r2| { r2.slot.set(mc2, Some(r2.p)); r1.slot.set(mc1, Some(r1.p)); *r1.p + *r2.p })) }",
    "finalize_returns_data": "pub fn f(a: &mut A) -> Option<bool> { a.finish_marking().map(|m| m.finalize(|fc, root| Gc::is_dead(fc, root.p))) }",
    "uncollectable_root_without_collection": "pub fn f() -> i32 { let a = Arena::<Rootable![Static<Gc<'_, i32>>]>::new(|mc| Static(Gc::new(mc, 1))); a.mutate(|_, r| *r.0) }",
    "root_with_require_static_static_ref_and_bound": "#[derive(Collect)]\n#[collect(no_drop, bound = \"\")]\npub struct R3<'gc> { #[collect(require_static)] pub stash: std::cell::Cell<Option<&'static i32>>, pub p: Gc<'gc, i32> }\npub fn f() { let mut a = Arena::<Rootable![R3<'_>]>::new(|mc| R3 { stash: std::cell::Cell::new(None), p: Gc::new(mc, 1) }); a.mutate(|_, r| r.stash.set(Some(&7))); a.finish_cycle(); }",
    # the same entry points with matching brands (the positive twin of the brand-mixing matrix)
    "same_arena_all_context_apis": "pub fn f(a: &mut A) { a.mutate(|mc, r| { let w = Gc::downgrade(r.p); let _ = w.upgrade(mc); let _ = Gc::write(mc, r.slot); r.slot.set(mc, None); let _ = r.slot.unlock(mc); let _h = r.set.stash::<Static<i32>>(mc, Gc::new(mc, Static(3))); mc.backward_barrier(Gc::erase(r.slot), None); mc.forward_barrier(None, Gc::erase(r.p)); mc.backward_barrier_weak(Gc::erase(r.slot), Gc::downgrade(Gc::erase(r.p))); let c = ZstCache::<8>::new(mc); let _z: Gc<'_, ()> = c.alloc(mc, ()); }); if let Some(m) = a.finish_marking() { m.finalize(|fc, r| { let _ = Gc::is_dead(fc, r.p); Gc::resurrect(fc, r.p); let _ = Gc::downgrade(r.p).resurrect(fc); let _ = Gc::downgrade(r.p).is_dead(fc); }); } }",
    "map_root_same_arena": "pub fn f(a: A) -> A { a.map_root::<Rootable![R<'_>]>(|mc, mut r| { r.p = Gc::new(mc, 2); r }) }",
}


def check_brand(tier):
    prop = "C12"
    t0 = time.time()
    d = os.path.join(WORK, "sat-C12")
    os.makedirs(d, exist_ok=True)
    build_sat()
    pdir = os.path.join(d, "probes")
    viols, results = [], {}

    def probe(name, body, expect_ok):
        ok, diag = probe_compile(BR_HEAD + body + "\n", name, pdir)
        results[name] = {"accepted": ok, "expected_accepted": expect_ok}
        return ok, diag

    # (1) variance: both directions must be rejected for every branded type; the twin (&'a i32) is covariant
    co_any, contra_any = False, False
    for name, ty in BRANDED.items():
        lt = "<'a: 'b, 'b, 'r>" if "'r" in ty else "<'a: 'b, 'b>"
        ok, _ = probe("co_" + name, f"pub fn co{lt}(x: {ty.format(l=chr(39) + 'a')}) -> {ty.format(l=chr(39) + 'b')} {{ x }}", False)
        if ok:
            co_any = True
            viols.append({"rule": "covariant:" + name, "what": f"{name} is covariant in the brand lifetime", "program": os.path.join(pdir, 'co_' + name + '.rs')})
        ok, _ = probe("contra_" + name, f"pub fn contra{lt}(x: {ty.format(l=chr(39) + 'b')}) -> {ty.format(l=chr(39) + 'a')} {{ x }}", False)
        if ok:
            contra_any = True
            viols.append({"rule": "contravariant:" + name, "what": f"{name} is contravariant in the brand lifetime", "program": os.path.join(pdir, 'contra_' + name + '.rs')})
    slot_co = False
    for name, ty in SLOT_VARIANCE.items():
        ok, _ = probe("slotco_" + name, f"pub fn co<'gc, 'a: 'b, 'b>(x: {ty.format(l=chr(39) + 'a')}) -> {ty.format(l=chr(39) + 'b')} {{ x }}", False)
        ok2, _ = probe("slotcontra_" + name, f"pub fn contra<'gc, 'a: 'b, 'b>(x: {ty.format(l=chr(39) + 'b')}) -> {ty.format(l=chr(39) + 'a')} {{ x }}", False)
        if ok or ok2:
            slot_co = True
            viols.append({"rule": "slot-variance:" + name, "what": f"the writable slot {name} is not invariant in its value type",
                          "program": os.path.join(pdir, 'slotco_' + name + '.rs')})
    compiled, rc, out, path = run_program(BUILDER_EXPLOIT, "builder_covariance", os.path.join(d, "programs"))
    results["program_builder_covariance"] = {"accepted": compiled, "expected_accepted": False}
    if compiled and rc != 0:
        viols.append({"rule": "exploit:builder_covariance", "what": "a &'gc T was stored in the arena heap through a covariant builder and dangled: " + out.strip()[-200:],
                      "program": path})
    ok, diag = probe("co_twin_plain_ref", "pub fn co<'a: 'b, 'b>(x: &'a i32) -> &'b i32 { x }", True)
    if not ok:
        raise ToolError("the covariance twin is rejected: the variance probes are broken: " + diag)
    # (2) auto traits
    send_any = False
    for name, ty in AUTO.items():
        for tr in ("send", "sync"):
            ok, _ = probe(f"{tr}_{name}", f"pub fn f() {{ is_{tr}::<{ty}>() }}", False)
            if ok:
                send_any = True
                viols.append({"rule": f"{tr}:{name}", "what": f"{name} is {tr.capitalize()}", "program": os.path.join(pdir, f'{tr}_{name}.rs')})
    ok, diag = probe("send_twin", "pub fn f() { is_send::<i32>(); is_sync::<i32>() }", True)
    if not ok:
        raise ToolError("the auto-trait twin is rejected: " + diag)
    # (3) the adversarial corpus: one escape attempt per entry point x target place
    escaped = []
    for name, body in ESCAPES.items():
        ok, _ = probe("esc_" + name, body, False)
        if ok:
            escaped.append(name)
            viols.append({"rule": "escape:" + name, "what": "an escape attempt compiles", "program": os.path.join(pdir, 'esc_' + name + '.rs')})
    for name, body in ESCAPE_TWINS.items():
        ok, diag = probe("twin_" + name, body, True)
        if not ok:
            raise ToolError(f"the legitimate twin {name} is rejected: the corpus no longer matches the API: {diag[-400:]}")
    # (4) the model over the measured facts
    capture = [n for n in escaped if n.startswith("capture") or n.startswith("thread")]
    returns = [n for n in escaped if "return" in n or "err_with" in n]
    refs = [n for n in escaped if n.startswith("root_with")]
    facts = {"Covariant": co_any, "Contravariant": contra_any, "SendOrSync": send_any, "HigherRanked": not capture,
             "RetNamesBrand": bool(returns), "RefCollect": bool(refs), "FetchUnchecked": "dynamic_root_fetch_unbranded" in escaped and False,
             "SlotCovariant": slot_co}
    consts = {k: ("TRUE" if v else "FALSE") for k, v in facts.items()}
    r = run_tlc("Brand", gcv.cfg_text(spec="Spec", constants=consts, invariants=["NoEscape"], constraints=["Bounded"]), "brand", d,
                workers=2, timeout=300, xmx="2g")
    txt = open(r["out"], errors="replace").read()
    rec = re.findall(r'recipe = (<<.*?>>)\n', txt, re.S)
    recipe = re.sub(r"\s+", " ", rec[-1]) if (r["error"] and rec) else None
    if r["error"] and "violated" not in r["error"]:
        raise ToolError(f"TLC run Brand failed: {r['error']} (see {r['out']})")
    if recipe and not viols:
        raise ToolError(f"Brand.tla finds an escape recipe for facts that no probe flags: {recipe}")
    os.makedirs(os.path.join(WORK, "replays"), exist_ok=True)
    for x in viols[:6]:
        path = os.path.join(WORK, "replays", f"C12_brand_{x['rule'].replace(':', '-')}.json")
        json.dump({"property": prop, "engine": "brand", "rule": "C12." + x["rule"], "detail": x, "escape_recipe_from_model": recipe}, open(path, "w"), indent=1)
        print(f"VIOLATION property={prop} replay={path}")
    cov = {
        "evaluations": len(results), "distinct_nontrivial": len(results),
        "rule": "one compile probe per (branded type x variance direction), per (type x Send/Sync), and per escape attempt (entry point x target "
                "place: callback result, captured local, static, thread, other arena's frame / root, root field the collector cannot see), each "
                "family with accepted twins; probes are distinct programs; TLC checks NoEscape over all move sequences (<= 4) for the measured facts",
        "samples": [{"probe": k, **v} for k, v in list(results.items())[::17]],
        "states": r["distinct"], "transitions": r["generated"], "facts_measured": facts, "escape_recipe_from_model": recipe,
        "probes_rejected_as_expected": sum(1 for v in results.values() if not v["accepted"] and not v["expected_accepted"]),
        "probes_accepted_as_expected": sum(1 for v in results.values() if v["accepted"] and v["expected_accepted"]),
        "traces_validated_against_impl": len(results),
        "checker_cmd": "rustc probes ; tlc Brand.tla (constants = measured facts)",
    }
    write_evidence(prop, tier, "exploration", cov, [
        "Brand.tla models the API's intended discipline, not rustc; it decides 'given these facts no chain of <= 4 API moves escapes'; the universal "
        "claim over all safe programs rests on variance and auto-trait probes settling the question structurally and on the corpus being representative",
        "rustc is the judge of every probe; a probe that is accepted where rejection is expected is a violation, a rejected twin is a tool error",
        "presenting a handle to another arena's set compiles by design and is rejected at run time: that clause is decided under C14"],
        time.time() - t0, len(viols))
    return 1 if viols else 0
