"""Satellite engines: Layout (C17), Builder (C18), Convert (C19).  Same pattern as the core:
TLC enumerates a finite space from the specification and checks the model's invariants on it,
the sat harness executes every element through the public API and records, a TLA+ trace
specification validates the recorded observations."""
import glob
import json
import os
import re
import subprocess
import time

import gcv
from gcv import ToolError, WORK, SPEC, ROOT, log, memo, run_tlc, extract_behaviours, write_evidence, seed, Lock

SAT = os.path.join(ROOT, "sat")


def build_sat():
    with Lock("cargo-sat"):
        lock_dst = os.path.join(SAT, "Cargo.lock")
        if not os.path.exists(lock_dst):
            import shutil
            shutil.copy(os.path.join(gcv.REPO, "Cargo.lock"), lock_dst)
        t0 = time.time()
        p = subprocess.run(["cargo", "build", "--offline", "--quiet"], cwd=SAT, stdout=subprocess.PIPE, stderr=subprocess.STDOUT, text=True)
        if p.returncode != 0:
            raise ToolError("sat harness build failed:\n" + p.stdout[-3000:])
        log(f"sat harness built in {time.time() - t0:.1f}s")
    return os.path.join(SAT, "target", "debug", "gcv-sat")


def rlib_paths():
    deps = os.path.join(SAT, "target", "debug", "deps")
    libs = sorted(glob.glob(os.path.join(deps, "libgc_arena-*.rlib")), key=os.path.getmtime)
    if not libs:
        raise ToolError("gc_arena rlib not found (build the sat harness first)")
    return libs[-1], deps


def probe_compile(src, name, outdir, extra_flags=()):
    """Compile a small client program against the freshly built gc-arena rlib (metadata only).
    Returns (accepted, diagnostics)."""
    rlib, deps = rlib_paths()
    os.makedirs(outdir, exist_ok=True)
    path = os.path.join(outdir, name + ".rs")
    with open(path, "w") as f:
        f.write(src)
    cmd = ["rustc", "--edition", "2024", "--crate-type", "lib", "--emit=metadata", "-o", os.path.join(outdir, name + ".rmeta"),
           "--extern", f"gc_arena={rlib}", "-L", f"dependency={deps}", "--cap-lints", "allow", "--error-format=short",
           *extra_flags, path]
    p = subprocess.run(cmd, stdout=subprocess.PIPE, stderr=subprocess.PIPE, text=True)
    return p.returncode == 0, p.stderr[-1500:]


SAT_SPECS = {
    "C17": {"kind": "layout", "mc": "MC_Layout", "trace": "LayoutTrace", "files": ["Layout.tla", "MC_Layout.tla", "LayoutTrace.tla"],
            "invs": ["Inv (LayoutOK: value aligned, bookkeeping inside the block and disjoint from the value, block = offset + size)"],
            "key": lambda r: json.dumps(r.get("point"), sort_keys=True)},
    "C18": {"kind": "builder", "mc": "MC_Builder", "trace": "BuilderTrace", "files": ["Builder.tla", "MC_Builder.tla", "BuilderTrace.tla"],
            "invs": ["Inv (the Drop transcription's terminal state agrees with Outcome for every life cycle)"],
            "key": lambda r: json.dumps(r.get("lc"), sort_keys=True)},
    "C19": {"kind": "convert", "mc": "MC_Convert", "trace": "ConvertTrace", "files": ["Convert.tla", "MC_Convert.tla", "ConvertTrace.tla"],
            "invs": ["Inv (every chain reaches a well-defined view; every strong view erases to Gc<()>, every weak view upgrades)"],
            "key": lambda r: json.dumps([r.get("target"), r.get("chain"), r.get("zst")], sort_keys=True)},
}


def sat_model(prop, d):
    sp = SAT_SPECS[prop]
    cfg = "SPECIFICATION Spec\nINVARIANTS Inv Emit\nCHECK_DEADLOCK FALSE\n"
    r = run_tlc(sp["mc"], cfg, sp["kind"], d, workers=4, timeout=900, xmx="4g")
    if r["error"]:
        raise ToolError(f"TLC run {sp['mc']} failed: {r['error']} (see {r['out']})")
    f = os.path.join(d, f"{sp['kind']}_grid.ndjson")
    n, _ = extract_behaviours(r["out"], f)
    os.remove(r["out"])
    r["behaviours"] = n
    return {"tlc": r, "grid": f}


CONJURE_PROBES = {
    # a safe client must not be able to obtain a Gc<T> for a T it never constructed
    "alloc_zst_void": ("""
use gc_arena::{Gc, Mutation, zst_cache::ZstCache};
pub enum Void {}
pub fn conjure<'gc>(mc: &Mutation<'gc>) -> Option<Gc<'gc, Void>> {
    let cache = ZstCache::<8>::new(mc);
    cache.alloc_zst::<Void>()
}
""", False),
    "alloc_zst_private_token": ("""
use gc_arena::{Gc, Mutation, zst_cache::ZstCache};
mod sealed { pub struct Token(()); }
pub fn conjure<'gc>(mc: &Mutation<'gc>) -> Option<Gc<'gc, sealed::Token>> {
    ZstCache::<1>::new(mc).alloc_zst::<sealed::Token>()
}
""", False),
    # positive twins: with a value in hand the cache is usable from safe code
    "alloc_static_with_value": ("""
use gc_arena::{Gc, Mutation, zst_cache::ZstCache};
pub struct Unit;
pub fn ok<'gc>(mc: &Mutation<'gc>) -> Gc<'gc, Unit> {
    ZstCache::<8>::new(mc).alloc_static(mc, Unit)
}
""", True),
    "cast_is_unsafe": ("""
use gc_arena::{Gc};
pub fn conjure<'gc>(g: Gc<'gc, u8>) -> Gc<'gc, bool> {
    Gc::cast::<bool>(g)
}
""", False),
    "from_ptr_is_unsafe": ("""
use gc_arena::{Gc};
pub fn conjure<'gc>(p: *const String) -> Gc<'gc, String> {
    Gc::from_ptr(p)
}
""", False),
}


def check_sat(prop, tier):
    t0 = time.time()
    sp = SAT_SPECS[prop]
    skey = gcv._hash_paths([os.path.join(SPEC, f) for f in sp["files"]] + [os.path.join(ROOT, "runner", "engines_sat.py")])[:16]
    model, md = memo("sat-" + sp["kind"], skey, lambda d: sat_model(prop, d))
    d = os.path.join(WORK, "sat-" + prop)
    os.makedirs(d, exist_ok=True)
    binary = build_sat()
    obs = os.path.join(d, "obs.ndjson")
    p = subprocess.run([binary, sp["kind"], "--in", model["grid"], "--out", obs], stdout=subprocess.PIPE, stderr=subprocess.PIPE, text=True)
    viols = []
    if p.returncode != 0:
        # a crash while executing the grid through the public API
        done = sum(1 for _ in open(obs)) if os.path.exists(obs) else 0
        viols.append({"rule": "crash", "index": done + 1, "rc": p.returncode})
        # validate what was recorded up to the crash
    recs = [json.loads(l) for l in open(obs)] if os.path.exists(obs) else []
    cfg = "SPECIFICATION TSpec\nPOSTCONDITION Accepted\nCHECK_DEADLOCK FALSE\n"
    r = run_tlc(sp["trace"], cfg, sp["kind"] + "mon", d, workers=1, timeout=900, env={"TRACE": obs}, deque=True, xmx="4g")
    txt = open(r["out"], errors="replace").read()
    m = re.search(r'^<<"VERDICT", (".*")>>$', txt, re.M)
    if not m or r["error"]:
        raise ToolError(f"{sp['trace']} did not accept the observations: {r['error']} (see {r['out']})")
    v = json.loads(json.loads(m.group(1)))
    tool = [x for x in v["viol"] if x[0] == "TOOL" or x[1].startswith("tool")]
    if tool:
        raise ToolError(f"the harness does not support grid entries the specification enumerates: {tool[:3]}")
    if not viols and v.get("missing", 0) != 0:
        raise ToolError(f"{v['missing']} elements of the specification's space were not executed")
    for x in v["viol"]:
        viols.append({"rule": x[1], "index": x[2]})
    probes = {}
    if prop == "C19":
        for name, (src, expect_ok) in CONJURE_PROBES.items():
            ok, diag = probe_compile(src, name, os.path.join(d, "probes"))
            probes[name] = {"accepted": ok, "expected_accepted": expect_ok}
            if ok != expect_ok:
                viols.append({"rule": "conjure:" + name, "index": 0, "diag": diag[-400:]})
    new = 0
    os.makedirs(os.path.join(WORK, "replays"), exist_ok=True)
    for x in viols[:6]:
        new += 1
        rec = recs[x["index"] - 1] if 0 < x["index"] <= len(recs) else None
        path = os.path.join(WORK, "replays", f"{prop}_{sp['kind']}_{x['index']}_{x['rule'].replace(':', '-')}.json")
        json.dump({"property": prop, "engine": "sat", "rule": f"{prop}.{x['rule']}", "record": rec, "detail": x}, open(path, "w"), indent=1)
        print(f"VIOLATION property={prop} replay={path}")
    new = len(viols)
    tl = model["tlc"]
    accepted = len(recs) - len({x["index"] for x in viols})
    cov = {
        "states": tl["distinct"], "transitions": tl["generated"],
        "traces_validated_against_impl": max(accepted, 0),
        "samples": [{k: r_.get(k) for k in ("point", "lc", "target", "chain", "zst") if k in r_} for r_ in recs[3:200:60]],
        "exhaustive": True,
        "evaluations": len(recs), "distinct_nontrivial": len({sp["key"](r_) for r_ in recs}),
        "rule": "every element of the finite space the specification defines (grid point / life cycle / conversion chain) is "
                "enumerated by TLC and executed once through the public API; elements are distinct by construction",
        "space_size": tl["behaviours"], "elements_executed": len(recs), "elements_missing": v.get("missing", 0),
        "model_invariants_checked": sp["invs"],
        "compile_probes": probes,
        "model_memoised": model.get("memoised", False),
        "checker_cmd": f"tlc {sp['mc']}.tla ; gcv-sat {sp['kind']} ; tlc {sp['trace']}.tla",
    }
    write_evidence(prop, tier, "model_checking", cov, SAT_ASSUMPTIONS[prop], time.time() - t0, len(viols))
    return 1 if new else 0


def replay_sat(rec):
    """Re-run one recorded satellite counterexample."""
    prop = rec["property"]
    sp = SAT_SPECS[prop]
    d = os.path.join(WORK, "replay-one")
    os.makedirs(d, exist_ok=True)
    if not rec.get("record"):
        print("no record to replay (compile probe or crash): re-run the check")
        return 1
    grid = os.path.join(d, "grid.ndjson")
    with open(grid, "w") as f:
        f.write(json.dumps(rec["record"]) + "\n")
    binary = build_sat()
    obs = os.path.join(d, "obs.ndjson")
    p = subprocess.run([binary, sp["kind"], "--in", grid, "--out", obs], stdout=subprocess.PIPE, stderr=subprocess.PIPE, text=True)
    if p.returncode != 0:
        print(f"harness crashed rc={p.returncode}")
        return 1
    cfg = "SPECIFICATION TSpec\nPOSTCONDITION Accepted\nCHECK_DEADLOCK FALSE\n"
    r = run_tlc(sp["trace"], cfg, "one", d, workers=1, timeout=300, env={"TRACE": obs}, deque=True, xmx="2g")
    txt = open(r["out"], errors="replace").read()
    m = re.search(r'^<<"VERDICT", (".*")>>$', txt, re.M)
    v = json.loads(json.loads(m.group(1))) if m else {"viol": [["?", "no verdict", 0]]}
    for x in v["viol"]:
        print(f"rule {x[0]}.{x[1]} broken")
    return 1 if v["viol"] else 0


SAT_ASSUMPTIONS = {
    "C17": ["GcHeader is 16 bytes / 8-aligned on this target (a constant of Layout.tla, confirmed by every grid point's value offset)",
            "the grid is the one listed in Layout.tla (23 sizes x 9 alignments up to 4096; 9 element and 7 header layouts; 7 lengths incl. 0)",
            "bytes are checked for the data bytes of the value (padding is unspecified)"],
    "C18": ["life cycles up to 4 elements; abandoning after k elements is reached through a panicking element constructor (init_length only grows inside write_slice_with)",
            "element kinds: destructor-logging, zero-sized with destructor, over-aligned (32) with destructor, Copy"],
    "C19": ["conversion chains up to length 4 over sized / slice / str / zero-sized targets; trait-object targets through unsize!",
            "the 'never conjures' clause is a programs-quantifier: it is decided by compile probes of each safe constructor (rustc is the judge), not by the model"],
}
