#!/usr/bin/env python3
"""Regenerates /verif/MANIFEST.json from the table below (run: python3 runner/manifest.py)."""
import json, os, subprocess
ROOT = os.path.dirname(os.path.dirname(os.path.abspath(__file__)))
props = [json.loads(l) for l in open(os.path.join(ROOT, "properties.jsonl"))]

CORE_NOTE = ("Trusted base: TLC; the harness's tracking allocator and drop log; the stepping technique of DESIGN.md 4.2. "
             "Exhaustive only within the bounds stated in the evidence (2 objects complete, 2 objects x 5 kinds up to 5 operations; "
             "thorough: 3 objects up to 6 operations, state cover).  Verdicts come only from GcMonitor rules broken by a "
             "recorded execution of the real crate; disagreement with the concrete model is reported as drift, not as a violation.")

def core(text, tech="TLC model checking of GcHeap.tla + replay of TLC behaviours through the real crate + TLC trace validation against GcMonitor.tla"):
    return {"engine": "core", "category": "model_checking", "text": text, "note": CORE_NOTE, "technique": tech, "design_ref": "DESIGN.md 3.1-3.5, 4, 6"}

CLAIMED = {
 "C01": core("Every invariant of the concrete collector model (tri-colour, sweep region, list and cursor well-formedness, no lost reachable object) is checked by TLC in every state of the bounded heap; every transition class of that state graph is then executed in the real crate at exactly the model's increment size, and the recorded destructor/allocator/traversal events are validated against the monitor rule 'nothing strongly reachable is destructed, released or unreadable'."),
 "C02": core("C02_Exact is an invariant of the model evaluated in every state as FinishCycle(FinishCycle(h)); every replayed behaviour is extended by two finish_cycle calls on the real arena and the monitor compares the undestructed set, the remaining blocks and the Gc count with the shadow graph's reachable set and weakly referenced shells."),
 "C03": core("Action property C03_MutatorFrame on the model; on the real crate every callback of every replayed behaviour is bracketed by cb_begin/cb_end events and the monitor rejects any destructor or allocator release between them; pointers held during the callback are re-validated by the lock-step traversal."),
 "C04": core("Every replayed behaviour is run twice, once dropping the arena exactly where the behaviour ends (asleep, mid-mark, marked, mid-sweep, with shells and garbage) and once after a full collection; the monitor requires exactly one destructor run per value, exactly one release per block with the requested layout, no outstanding block and a zero Gc count on a retained Metrics handle."),
 "C05": core("Model invariants C05_WeakBlock/UpgradeComplete/UpgradeSound over all interleavings; in the real crate every weak pointer held by an accessible object is queried (is_dropped, upgrade) after every operation in every phase and judged against the shadow (sound, complete, fails only when destructed or Sweeping, is_dropped exact and monotone, block still allocated); upgrade attempts on condemned targets are followed by a store so that a wrongly successful upgrade surfaces as a C01 violation."),
 "C06": core("The model's action menu contains every sanctioned storage path (Gc::write/unlock, Lock/RefLock/OnceLock setters, field!/unlock!, mutate_root/map_root/try_map_root, the four explicit barriers with optional arguments given and omitted, parent-only backward barrier followed by several adoptions, child-only forward barrier followed by adoption by several parents, barrier-only callbacks) on five object kinds; TLC enumerates path x phase x colour classes, each is executed in the real crate and the adopted target is followed to the end of the cycle and one further full cycle."),
 "C07": core("Model invariants C07_NoDeadReachable / DeadExact / ResurrectHolds; in the real crate every MarkedArena handed out is inspected (is_dead for every accessible object and weak target), resurrections chosen by TLC are performed, and the monitor checks dead<=>unreachable (when no mutation since marking began), resurrect's result, survival of the resurrected closure through the cycle and the return to Marking."),
 "C08": core("Action property C08_PhaseProtocol on the model; the same PhaseOK/MarkedOK tables judge every recorded call (kind, phase before, phase after, MarkedArena returned) and every callback of the real crate."),
 "C11": core("The model's Next is extended with trace panics (k-th Collect::trace invocation of a call, after j children, for objects and for the root), callbacks that panic after their last step (mutate, mutate_root, map_root, try_map_root), try_map_root returning Err and failing Arena::new / try_new constructors; ALL invariants of C01-C07 are required in every post-fault state.  Each fault class is replayed in the real crate with the panic injected at exactly that trace call (catch_unwind), the behaviour continues, and the C01-C05 monitor rules plus 'a consumed arena releases everything' judge the recorded trace."),
 "C14": core("DynamicRootSet is part of the collector model: per set object the slot table (occupied/vacant, refcount, free list) transcribed from Slots::add/inc/dec, the set's strong children DERIVED from its occupied slots, handles as records outside the arena that survive it.  TLC checks slot-table well-formedness (refcount = handles - 1, free list = vacant slots), 'slot reuse never retargets a live handle', keeps-alive and (through C02_Exact) collectability for every interleaving of new_set / stash / clone / drop / remove_set with collection increments up to the stated length; class witnesses (phase x colour of set and object x slot reuse x refcount) are replayed in the real crate, where after every operation every handle is presented to every set (contains, try_fetch, fetch) and the monitor checks acceptance, identity of the fetched object, harmless handle operations after the set or arena is gone, plus C01/C02 with stashed objects as roots."),
 "C20": {**core("TwoArenas.tla composes two instances of the collector model on disjoint variables (frame property C20_Frame checked by TLC) and enumerates their interleavings, including dropping one arena in every phase of the other; the harness runs them on two real arenas of one thread with different pacing, re-observes the OTHER arena after every operation, and the monitor requires (r1) that values are destructed/released only by operations on their own arena, (r2) that phase, count and debt of an arena are unchanged by anything that happened since its own last operation, and each arena's C01-C05 rules."), "category": "exploration",
         "note": "Model checking of the composition is vacuous by construction and is not what is claimed; the claim is trace validation of interleaved real executions drawn from the model (exploration). Foreign handles are covered under C14 (handles of one set presented to another set)."},
 "C12": {"engine": "brand", "category": "exploration", "design_ref": "DESIGN.md 6 (C12)",
   "text": "Brand.tla models where a value branded by arena A's callback can be (frame, root, handle; escapes: outer local, callback result, static, other thread, other arena's frame / root) and the moves the API offers between them, guarded by facts about the crate.  The facts are measured: both variance directions for 11 branded types (must be rejected; twin on &'a i32 accepted), Send and Sync for 10 types incl. Arena, Mutation, Finalization, MarkedArena, Metrics (must be rejected), and an adversarial corpus of 31 escape attempts through every entry point (mutate, mutate_root, map_root, try_map_root, new, try_new, finalize, rootless_mutate, stash / fetch) x target place, each family with accepted twins (9).  TLC checks NoEscape over all move sequences for the measured facts; a flipped fact yields a multi-move escape recipe that is written next to the offending probe.",
   "note": "A model of the API's intended discipline, not of rustc; variance and auto-trait probes settle the structural clauses for all uses, the corpus is representative, not complete. rustc is the judge, so no false alarms; a rejected legitimate twin is a tool error.",
   "technique": "rustc compile probes (variance, auto traits, escape corpus with twins) measure the facts + TLC model checking of Brand.tla over the measured facts"},
 "C13": {"engine": "writecap", "category": "exploration", "design_ref": "DESIGN.md 6 (C13), 7 (F3, F4)",
   "text": "WriteCap.tla is a capability model of src/barrier.rs: places with their owning GC objects (unique, shared, borrowed ownership), Write capabilities created and projected by moves (Gc::write, from_mut, from_static, assume, field!, as_deref per container kind, indexing, as_write, unlock), each guarded by a fact about the crate measured by a compile probe on a pointer-holding type.  TLC searches every move sequence (<= 5) over the measured facts for a capability on storage owned by an un-barriered marked object; recipes it finds are rendered into executable programs (one per non-owning container kind) which are compiled against the freshly built crate and run: VIOLATION iff the program compiles and loses a value that is still reachable.  The clauses the property names outright (no forged Write, no field! through a dereference, no unlock without Write, no pointers in plain Cell/RefCell) are decided by their probes directly.  On the pinned tree this finds F3/F4 (from_mut(&mut &T / Rc / Arc).as_deref()), now fixed.",
   "note": "A model of the API's capability discipline, not of rustc: decides 'no chain of <= 5 moves over these facts'; the universal claim over all safe programs rests on the probes being the right facts. rustc and the run-time observation are the judges, so no false alarms.",
   "technique": "rustc compile probes measure the facts + TLC model checking of WriteCap.tla over the measured facts + model-found recipes rendered to programs, compiled and run"},
 "C15": {"engine": "shapes", "category": "model_checking", "design_ref": "DESIGN.md 6 (C15/C16)",
   "text": "TraceShape.tla states the law as two operators -- Reported(shape): how many strong and weak pointers a value must report (fields of the active variant only, never a require_static field) and NeedsTrace(shape) -- and TLC enumerates 861 derived shapes (named / tuple / unit structs, up to 3 fields x 4 leaf kinds x every type-correct subset of require_static positions x generic first field with and without a bound override; enums with unit / tuple / named variants x each active variant).  A generator renders each shape into a type with #[derive(Collect)] and a function that fills it with uniquely identifiable pointers; the program traces it with a recording implementation of the public Trace trait and reads NEEDS_TRACE; ShapeTrace.tla validates counts, the exact pointer sets and NEEDS_TRACE against the law.  The derive's rejections (missing / duplicated mode, no_drop on a Drop type, require_static on a branded type or an enum variant, non-Collect field, several lifetimes without gc_lifetime) are compile probes, each with an accepted twin.",
   "note": "Exhaustive over the stated shape space only; rejections rest on rustc judging probes.",
   "technique": "TLC enumeration of TraceShape.tla's derived shapes + generated Rust traced with a recording Trace impl + TLC trace validation (ShapeTrace.tla) + rustc compile probes"},
 "C16": {"engine": "shapes", "category": "model_checking", "design_ref": "DESIGN.md 6 (C15/C16)",
   "text": "The same law over the provided impls: TLC enumerates 1126 shapes -- 28 container kinds (Option, Result, arrays, boxed slices, Box, Rc, Arc, Vec, VecDeque, LinkedList, BinaryHeap, BTreeMap/Set, HashMap/Set, Lock, RefLock, OnceLock, SliceWithHeader, hashbrown HashMap/HashSet/HashTable, indexmap IndexMap/IndexSet, slotmap SlotMap, SmallVec, EnumMap) x every leaf kind (Gc, GcWeak, pointer-free, Option<Gc>, Vec<Gc>, Box<GcWeak>) in every type-parameter position x element counts 0..3, and tuples of arity 1..16 with the pointer at every position -- each rendered, traced and validated as for C15; 'NEEDS_TRACE = false only for pointer-free types' is probed by trying to instantiate Cell, RefCell, &'static T, Static<T> and a branded hasher with arena pointers (must be rejected; twins accepted).",
   "note": "Quick tier builds all optional features at once; thorough also each alone and none. Depth: containers of leaves where a leaf may be a small nested container.",
   "technique": "TLC enumeration of TraceShape.tla's container and tuple shapes + generated Rust traced with a recording Trace impl + TLC trace validation (ShapeTrace.tla) + rustc compile probes"},
 "C17": {"engine": "sat", "category": "model_checking", "design_ref": "DESIGN.md 6 (C17)",
   "text": "Layout.tla is an integer transcription of the crate's layout computation (Layout::extend / pad_to_align, META_HEADER_LAYOUT, prefix_header_layout, SliceWithHeader::layout).  TLC checks, for every point of a grid of sized values (23 sizes x 9 alignments up to 4096), slices, strs and slices-with-header (zero-sized headers, elements and lengths included), that the value is aligned, that header and metadata lie inside the block, aligned and disjoint from the value, and that the block is exactly offset + size; it prints the grid, each point is allocated through the public API under the tracking allocator (guard bytes), its bytes and address are re-checked across collections in every phase, it is released, and LayoutTrace.tla validates block layout, value offset, release layout, guard bytes and the fat/thin/raw round trips against Expect().",
   "note": "Exhaustive over the stated grid only; GcHeader 16/8 assumed for this target.",
   "technique": "TLC enumeration of Layout.tla's grid with layout invariants + execution of every grid point in the real crate + TLC trace validation (LayoutTrace.tla)"},
 "C18": {"engine": "sat", "category": "model_checking", "design_ref": "DESIGN.md 6 (C18)",
   "text": "MC_Builder.tla walks every builder life cycle (GcBuilder, slice-with-header, slice, str; n <= 4; abandon before header / after header / element constructor k panics / complete / copy with right or wrong length; four element kinds) through a transcription of the Drop impls and checks that the terminal state agrees with Outcome(); every life cycle is replayed in the real crate (drop log per part, tracked block, count and debt before/after, collections afterwards) and BuilderTrace.tla validates: invisible unless completed, released once with its layout, exactly the initialised parts destructed, never visited by a later collection, completed contents equal what was written, wrong-length copies rejected.",
   "note": "Exhaustive for n <= 4 and the listed element kinds.",
   "technique": "TLC enumeration of builder life cycles (MC_Builder.tla) + replay of each in the real crate + TLC trace validation (BuilderTrace.tla)"},
 "C19": {"engine": "sat", "category": "model_checking", "design_ref": "DESIGN.md 6 (C19), 7 (F5)",
   "text": "Convert.tla defines views and the conversion edges the type system allows per target; TLC enumerates all 1499 conversion chains up to length 4 over sized, slice, str and zero-sized targets (erase, erase_kind, downgrade/upgrade, unsize!, as_thin/as_fat, raw round trips, DynamicRootSet stash+fetch) and the ZST-cache grid (7 alignments x 3 cache alignments x ZST/non-ZST); each chain is applied to a real pointer and ConvertTrace.tla validates ptr_eq / same address, dereference to the original value, that storing ONLY the final handle keeps the value alive iff the handle is strong, that a weak one reports is_dropped, and that the value is destructed once as its original type.  The 'never conjures' clause is decided by compile probes (alloc_zst on an uninhabited / sealed type, cast, from_ptr must be rejected in safe code; their positive twins accepted).",
   "note": "Chains exhaustive to length 4; the conjuring clause rests on rustc judging the probes (fixed defect F5: alloc_zst is now unsafe).",
   "technique": "TLC enumeration of conversion chains (MC_Convert.tla) + execution in the real crate + TLC trace validation (ConvertTrace.tla) + rustc compile probes"},
 "C09": {"engine": "pacing", "category": "model_checking", "design_ref": "DESIGN.md 3.3, 6 (C09)",
   "text": "MC_Pacing.tla is the collector model with the crate's real debt arithmetic (integers scaled by 16, exact for dyadic pacings); TLC checks collect_debt-pays, stop-or-paid, stop-the-world, the rho bound (with the antecedent 'woke with positive debt') and the sleep promise for four pacings over every history of bounded length.  Every emitted behaviour is replayed in the real crate with EQUALITY of allocation_debt()*16 and the Gc count after every operation; a seeded random driver (heaps up to 64 roots, bursts, all-survive / all-garbage / shells / mixed workloads, random dyadic pacings incl. stop-the-world and rho = 15/16) explores larger H; the monitor's C09 rules judge every recorded call.",
   "note": "Trusted base: TLC, the harness. Equality of debts only for dyadic factors; the rho bound is exhaustive for 2-object heaps only and explored (not proved) beyond; sleep rule applied after atomic cycles only (weaker reading).",
   "technique": "TLC model checking of MC_Pacing.tla (exact integer debt arithmetic) + replay with exact debt equality + random driver traces validated by TLC against GcMonitor.tla"},
 "C10": {"engine": "pacing", "category": "model_checking", "design_ref": "DESIGN.md 3.3, 6 (C10), 7 (F1, F2)",
   "text": "Counters live in the same heap record as the collector model, bumped where the code bumps them; a guarded subtraction sets a fault flag so that an underflow in the design is a TLC counterexample (this is how F1 shows without the repair).  TLC checks zero-when-empty, exact adjust_debt, 'mutators never pay' (finding F2 carved out by name) and no-counter-fault; the real crate is held to count = outstanding blocks, finite non-negative debt, zero debt when empty, exact adjustment, monotone debt across callbacks and no arithmetic panic on EVERY recorded trace of the core and pacing engines (debug and release builds), including barriers on marked objects of non-tracing types and trace panics.",
   "note": "Known finding F2 (forward barriers that mark are credited mark_factor) is reported as KNOWN-FINDING via rule C10.r5f; any other decrease is a violation. Equality claims only for dyadic pacings.",
   "technique": "TLC model checking of MC_Pacing.tla / MC_GcHeap.tla with counter-fault flag + TLC trace validation of recorded executions against GcMonitor.tla"},
}

checks = []
for p in props:
    pid = p["id"]
    if pid not in CLAIMED:
        continue
    c = CLAIMED[pid]
    checks.append({
        "property_id": pid,
        "quick_cmd": f"./check {pid} --tier quick",
        "thorough_cmd": f"./check {pid} --tier thorough",
        "evidence_file": f"/verif/evidence/{pid}.json",
        "replay_cmd_template": "./check replay {path}",
        "engine": c["engine"],
        "level_claimed": {"category": c["category"], "text": c["text"], "design_ref": c["design_ref"]},
        "level_note": c["note"],
        "technique": c["technique"],
    })

hook_commits = subprocess.run(["git", "-C", "/repo", "log", "--format=%H %s"], capture_output=True, text=True).stdout.splitlines()
hook_commits = [l.split()[0] for l in hook_commits if "verif hook" in l]

NA_REASON = "check not built yet (work in progress, see DESIGN.md section 9 build order)"
m = {
 "version": 1,
 "setup_cmd": "./check setup",
 "hooks": {"guard": "gc_arena_verif", "enable": "rustflags --cfg gc_arena_verif in /verif/harness/.cargo/config.toml (the harness is the only consumer)",
           "baseline_off_cmd": "cd /repo && cargo test --workspace --no-fail-fast --offline",
           "source_commits": hook_commits, "add_only": True},
 "engines": [
   {"name": "sat", "path": "/verif/spec/Layout.tla /verif/spec/Builder.tla /verif/spec/Convert.tla (+ MC_* and *Trace modules) /verif/sat /verif/runner/engines_sat.py",
    "serves_properties": ["C17", "C18", "C19"],
    "kind_free_text": "finite spaces (layout grid, builder life cycles, conversion chains) enumerated and invariant-checked by TLC, executed element by element in the real crate, observations validated by TLC trace specifications"},
   {"name": "brand", "path": "/verif/spec/Brand.tla /verif/runner/engines_sat.py (BRANDED, AUTO, ESCAPES, ESCAPE_TWINS)",
    "serves_properties": ["C12"],
    "kind_free_text": "place/move model in TLA+ whose guards are facts measured by rustc compile probes; adversarial probe corpus with accepted twins"},
   {"name": "writecap", "path": "/verif/spec/WriteCap.tla /verif/runner/engines_sat.py (WRITE_FACT_PROBES, EXPLOITS)",
    "serves_properties": ["C13"],
    "kind_free_text": "capability model in TLA+ whose atomic facts are measured by rustc compile probes; TLC searches move sequences; counterexample recipes are rendered to programs that rustc and a run-time check judge"},
   {"name": "shapes", "path": "/verif/spec/TraceShape.tla /verif/spec/MC_TraceShape.tla /verif/spec/ShapeTrace.tla /verif/gen/render_shapes.py /verif/shapes",
    "serves_properties": ["C15", "C16"],
    "kind_free_text": "the tracing law as TLA+ operators over a finite shape space enumerated by TLC; each shape rendered to Rust, traced with a recording Trace implementation; observations validated by TLC; rejections by rustc compile probes"},
   {"name": "pacing", "path": "/verif/spec/MC_Pacing.tla /verif/spec/GcHeap.tla /verif/spec/GcMonitor.tla /verif/harness/src/driver.rs",
    "serves_properties": ["C09", "C10"],
    "kind_free_text": "the collector model with exact (scaled-integer) debt arithmetic checked by TLC; behaviours replayed with equality of debts; seeded random driver; traces validated by TLC against the monitor"},
   {"name": "core", "path": "/verif/spec/GcHeap.tla /verif/spec/MC_GcHeap.tla /verif/spec/GcMonitor.tla /verif/harness /verif/runner",
    "serves_properties": [c["property_id"] for c in checks if c["engine"] == "core"],
    "kind_free_text": "implementation-shaped TLA+ model checked by TLC; TLC-emitted behaviours replayed through the real crate; recorded traces validated by TLC against a property-shaped TLA+ monitor"}],
 "checks": checks,
 "notes": "see DESIGN.md; fixes to genuine defects are recorded in known_findings.json",
 "not_applicable": [{"property_id": p["id"], "reason": NA_REASON} for p in props if p["id"] not in CLAIMED],
}
json.dump(m, open(os.path.join(ROOT, "MANIFEST.json"), "w"), indent=1)
print("claimed", len(checks), "not_applicable", len(m["not_applicable"]))
