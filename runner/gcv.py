"""Orchestration: TLC model checking -> behaviours -> replay through the real crate ->
recorded traces -> TLC trace validation by the monitor -> verdicts and evidence."""
import fcntl
import hashlib
import json
import os
import re
import shutil
import subprocess
import sys
import time
from concurrent.futures import ThreadPoolExecutor

ROOT = os.path.dirname(os.path.dirname(os.path.abspath(__file__)))
SPEC = os.path.join(ROOT, "spec")
HARN = os.path.join(ROOT, "harness")
WORK = os.path.join(ROOT, "work")
EVID = os.path.join(ROOT, "evidence")
REPO = os.environ.get("GCV_REPO", "/repo")   # (GCV_REPO: mutants/try_patch_iso.sh tests a patched scratch copy without touching /repo)
NCPU = os.cpu_count() or 8


class ToolError(Exception):
    pass


def log(*a):
    print("[gcv]", *a, file=sys.stderr, flush=True)


def seed():
    try:
        return int(os.environ.get("VERIF_SEED", "1"))
    except ValueError:
        return 1


# ----------------------------------------------------------------------------- hashing / memo
def _hash_paths(paths):
    h = hashlib.sha256()
    for base in paths:
        if os.path.isfile(base):
            files = [base]
        else:
            files = []
            for d, dn, fn in os.walk(base):
                dn[:] = sorted(x for x in dn if x not in ("target", ".git", "work", "__pycache__"))
                for f in sorted(fn):
                    files.append(os.path.join(d, f))
        for f in files:
            h.update(f.encode())
            try:
                with open(f, "rb") as fh:
                    h.update(fh.read())
            except OSError:
                h.update(b"<unreadable>")
    return h.hexdigest()


def tree_key(extra=""):
    paths = [os.path.join(REPO, p) for p in ("src", "derive/src", "derive/Cargo.toml", "Cargo.toml", "Cargo.lock")]
    paths += [SPEC, os.path.join(HARN, "src"), os.path.join(HARN, "Cargo.toml"), os.path.join(ROOT, "runner"),
              os.path.join(ROOT, "known_findings.json")]
    return _hash_paths(paths)[:20] + extra


class Lock:
    def __init__(self, name):
        os.makedirs(WORK, exist_ok=True)
        self.path = os.path.join(WORK, name + ".lock")

    def __enter__(self):
        self.fh = open(self.path, "w")
        fcntl.flock(self.fh, fcntl.LOCK_EX)
        return self

    def __exit__(self, *a):
        fcntl.flock(self.fh, fcntl.LOCK_UN)
        self.fh.close()


def memo(name, key, fn):
    """Run fn(dir) once per key; its JSON result is cached in work/cache/<name>-<key>/result.json."""
    d = os.path.join(WORK, "cache", f"{name}-{key}")
    res = os.path.join(d, "result.json")
    with Lock("memo-" + name):
        if os.path.exists(res):
            r = json.load(open(res))
            r["memoised"] = True
            return r, d
        if os.path.exists(d):
            shutil.rmtree(d)
        # keep the cache small: drop older entries of the same name
        cdir = os.path.join(WORK, "cache")
        if os.path.isdir(cdir):
            for e in os.listdir(cdir):
                if e.startswith(name + "-"):
                    shutil.rmtree(os.path.join(cdir, e), ignore_errors=True)
        os.makedirs(d)
        r = fn(d)
        r["memoised"] = False
        json.dump(r, open(res, "w"))
        return r, d


# ----------------------------------------------------------------------------- TLC
TLC_JAR_CP = "/opt/veriftools/tla/tla2tools.jar:/opt/veriftools/tla/CommunityModules-deps.jar"


def run_tlc(module, cfg_text, name, outdir, workers=12, timeout=1800, env=None, simulate=None, depth=None,
            xmx="12g", deque=False, coverage=False):
    """Run TLC on spec/<module>.tla with the given configuration text.  Returns a dict with
    TLC's own counts.  A counterexample in the MODEL is reported in the dict (`error`)."""
    os.makedirs(outdir, exist_ok=True)
    cfg = os.path.join(outdir, name + ".cfg")
    with open(cfg, "w") as f:
        f.write(cfg_text)
    out = os.path.join(outdir, name + ".out")
    meta = os.path.join(outdir, name + ".meta")
    shutil.rmtree(meta, ignore_errors=True)
    jopts = ["-XX:+UseParallelGC", f"-Xmx{xmx}", "-Xss1g"]
    if deque:
        jopts.append("-Dtlc2.tool.queue.IStateQueue=StateDeque")
    cmd = ["timeout", str(timeout), "java"] + jopts + ["-cp", TLC_JAR_CP, "tlc2.TLC", "-workers", str(workers),
                                                        "-metadir", meta, "-cleanup", "-noGenerateSpecTE", "-config", cfg]
    if simulate:
        cmd += ["-simulate", simulate, "-seed", str(seed())]
    if depth:
        cmd += ["-depth", str(depth)]
    if coverage:
        cmd += ["-coverage", "1"]
    cmd.append(os.path.join(SPEC, module + ".tla"))
    e = dict(os.environ)
    e.pop("JAVA_TOOL_OPTIONS", None)
    if env:
        e.update(env)
    t0 = time.time()
    with open(out, "w") as fo:
        rc = subprocess.call(cmd, stdout=fo, stderr=subprocess.STDOUT, cwd=SPEC, env=e)
    wall = time.time() - t0
    shutil.rmtree(meta, ignore_errors=True)
    txt = open(out, errors="replace").read()
    r = {"name": name, "module": module, "rc": rc, "wall_s": round(wall, 1), "out": out, "workers": workers,
         "generated": 0, "distinct": 0, "depth": 0, "error": None, "complete": False}
    m = re.search(r"(\d+) states generated, (\d+) distinct states found, (\d+) states left on queue", txt)
    if m:
        r["generated"], r["distinct"], r["queue"] = int(m.group(1)), int(m.group(2)), int(m.group(3))
        r["complete"] = r["queue"] == 0
    m = re.search(r"The depth of the complete state graph search is (\d+)", txt)
    if m:
        r["depth"] = int(m.group(1))
    if simulate:
        m = re.search(r"The number of states generated: (\d+)", txt)
        if m:
            r["generated"] = int(m.group(1))
            r["distinct"] = r["generated"]
    if rc == 124:
        r["error"] = "timeout"
        r["complete"] = False
    elif "Error:" in txt or rc not in (0,):
        m = re.search(r"Error: (.*)", txt)
        r["error"] = (m.group(1) if m else f"rc={rc}")[:300]
    return r


def cfg_text(spec="Spec", constants=None, invariants=(), properties=(), constraints=(), action_constraints=(),
             symmetry=None, view=None, postcondition=None, init=None, nxt=None):
    lines = []
    if init and nxt:
        lines += [f"INIT {init}", f"NEXT {nxt}"]
    else:
        lines.append(f"SPECIFICATION {spec}")
    if constants:
        lines.append("CONSTANTS")
        for k, v in constants.items():
            lines.append(f"  {k} = {v}")
    if symmetry:
        lines.append(f"SYMMETRY {symmetry}")
    if view:
        lines.append(f"VIEW {view}")
    for c in constraints:
        lines.append(f"CONSTRAINT {c}")
    for c in action_constraints:
        lines.append(f"ACTION_CONSTRAINT {c}")
    if invariants:
        lines.append("INVARIANTS " + " ".join(invariants))
    if properties:
        lines.append("PROPERTIES " + " ".join(properties))
    if postcondition:
        lines.append(f"POSTCONDITION {postcondition}")
    lines.append("CHECK_DEADLOCK FALSE")
    return "\n".join(lines) + "\n"


def tla_set(xs, quote=True):
    return "{" + ", ".join((f'"{x}"' if quote else str(x)) for x in xs) + "}"


def extract_behaviours(tlc_out, dest, per_class=None, limit=None, tag="BEH"):
    """Pull the JSON behaviours TLC printed (<<"BEH", "...">>) into an ndjson file."""
    n = 0
    seen = {}
    prefix = f'<<"{tag}", '
    with open(dest, "w") as fo:
        for line in open(tlc_out, errors="replace"):
            if not line.startswith(prefix):
                continue
            body = line.rstrip("\n")[len(prefix):-2]
            try:
                js = json.loads(body)
            except json.JSONDecodeError:
                continue
            if per_class is not None:
                b = json.loads(js)
                k = json.dumps(b.get("class"))
                if seen.get(k, 0) >= per_class:
                    continue
                seen[k] = seen.get(k, 0) + 1
            fo.write(js + "\n")
            n += 1
            if limit and n >= limit:
                break
    return n, len(seen)


# ----------------------------------------------------------------------------- harness
def build_harness(profile="debug"):
    """(Re)build the harness against /repo's current working tree.  cargo notices changed sources
    of the path dependency by itself."""
    with Lock("cargo"):
        lock_src = os.path.join(REPO, "Cargo.lock")
        lock_dst = os.path.join(HARN, "Cargo.lock")
        if not os.path.exists(lock_dst):
            shutil.copy(lock_src, lock_dst)
        cmd = ["cargo", "build", "--offline", "--quiet"] + (["--release"] if profile == "release" else [])
        t0 = time.time()
        p = subprocess.run(cmd, cwd=HARN, stdout=subprocess.PIPE, stderr=subprocess.STDOUT, text=True)
        if p.returncode != 0:
            raise ToolError("harness build failed:\n" + p.stdout[-3000:])
        log(f"harness built ({profile}) in {time.time() - t0:.1f}s")
    return os.path.join(HARN, "target", profile, "gcv-harness")


def run_harness(binary, args, timeout=3600):
    p = subprocess.run([binary] + args, stdout=subprocess.PIPE, stderr=subprocess.PIPE, text=True, timeout=timeout)
    return p


def replay_and_judge(binary, beh_file, outdir, name, shards=8, epilogues="c02,drop", monitor_timeout=1800):
    """Replay the behaviours (sharded), then validate every recorded trace with the monitor.
    Returns the merged result."""
    os.makedirs(outdir, exist_ok=True)

    def one(i):
        """One shard.  A crash of the harness (SIGSEGV, abort) while it replays a behaviour through
        the SAFE public API is data: the behaviour is re-run alone to confirm, recorded, and the
        shard continues behind it."""
        frm = 0
        part = 0
        reps, verdicts, traces, crashes = [], [], [], []
        while True:
            tr = os.path.join(outdir, f"{name}.{i}.{part}.trace.ndjson" if part else f"{name}.{i}.trace.ndjson")
            rp = os.path.join(outdir, f"{name}.{i}.report.json")
            pg = os.path.join(outdir, f"{name}.{i}.progress")
            p = run_harness(binary, ["replay", "--in", beh_file, "--trace", tr, "--report", rp, "--epilogues", epilogues,
                                     "--shard", f"{i}/{shards}", "--from", str(frm), "--progress", pg])
            if p.returncode == 0:
                reps.append(json.load(open(rp)))
                verdicts.append(monitor(tr, outdir, f"{name}.{i}.{part}", timeout=monitor_timeout))
                traces.append(tr)
                break
            try:
                idx = int(open(pg).read().strip() or "-1")
            except (OSError, ValueError):
                idx = -1
            if idx < 0:
                return {"crash": True, "rc": p.returncode, "stderr": p.stderr[-2000:], "shard": i, "trace": tr}
            if len(crashes) >= 3:
                # enough evidence from this shard; what was recorded so far is still judged
                break
            # confirm: the behaviour alone, from a fresh process
            one_f = os.path.join(outdir, f"{name}.{i}.crash{idx}.ndjson")
            with open(beh_file) as fh:
                for k, line in enumerate(fh):
                    if k == idx:
                        open(one_f, "w").write(line)
                        break
            q = run_harness(binary, ["replay", "--in", one_f, "--trace", one_f + ".trace", "--report", one_f + ".rep",
                                     "--epilogues", epilogues])
            confirmed, how = q.returncode != 0, "alone"
            if not confirmed:
                # state carried from earlier behaviours of the same process (a thread-local or static in the
                # crate): confirm with the same history instead
                q2 = run_harness(binary, ["replay", "--in", beh_file, "--trace", one_f + ".trace", "--report", one_f + ".rep",
                                          "--epilogues", epilogues, "--shard", f"{i}/{shards}", "--upto", str(idx)])
                confirmed, how = True, ("with-history" if q2.returncode != 0 else "unconfirmed")
            for junk in (one_f + ".trace", one_f + ".rep"):
                if os.path.exists(junk):
                    os.remove(junk)
            crashes.append({"beh": idx, "rc": p.returncode, "confirmed": confirmed, "rc_alone": q.returncode, "how": how,
                            "shard": f"{i}/{shards}", "epilogues": epilogues})
            if os.path.exists(tr):
                os.remove(tr)      # the partial trace ends mid-behaviour
            frm = idx + 1
            part += 1
        return {"crash": False, "reports": reps, "verdicts": verdicts, "shard": i, "traces": traces, "crashes": crashes}

    with ThreadPoolExecutor(max_workers=min(shards, NCPU)) as ex:
        parts = list(ex.map(one, range(shards)))
    merged = {"behaviours": 0, "runs": 0, "ops": 0, "events": 0, "drift": 0, "drift_samples": [], "diverged": 0,
              "skipped_ops": 0, "viol": [], "nviol": 0, "hits": {}, "crashes": [], "monitor_events": 0,
              "monitor_wall_s": 0.0}
    for p in parts:
        if p["crash"]:
            merged["crashes"].append({"shard": p["shard"], "rc": p["rc"], "stderr": p["stderr"]})
            continue
        for c in p["crashes"]:
            if c["confirmed"]:
                # A crash (signal) of the harness while it drives the crate through its SAFE public API is
                # undefined behaviour in the crate: the consequence clause of C01.  The harness itself is
                # single-threaded and deterministic and does not crash on a tree that has the property;
                # a crash that needs earlier behaviours of the same process ("with-history") or could not
                # be reproduced ("unconfirmed": it depended on allocator state) is reported all the same.
                merged["viol"].append({"prop": "C01", "rule": "crash", "line": 0, "obj": c["rc"], "beh": c["beh"],
                                       "trace": "", "extra": {"crash": c}})
                merged["nviol"] += 1
        for rep, v, tr in zip(p["reports"], p["verdicts"], p["traces"]):
            for k in ("behaviours", "runs", "ops", "events", "drift", "diverged", "skipped_ops"):
                merged[k] += rep.get(k, 0)
            merged["drift_samples"] += rep.get("drift_samples", [])[:3]
            merged["nviol"] += v["nviol"]
            for x in v["viol"]:
                merged["viol"].append({"prop": x[0], "rule": x[1], "line": x[2], "obj": x[3], "beh": x[4], "trace": tr})
            for k, n in v["hits"].items():
                merged["hits"][k] = merged["hits"].get(k, 0) + n
            merged["monitor_events"] += v["events"]
            merged["monitor_wall_s"] = max(merged["monitor_wall_s"], v["wall_s"])
    return merged


def monitor(trace_file, outdir, name, timeout=1800, module="GcMonitorTrace"):
    """TLC trace validation of one recorded trace against the monitor specification."""
    if os.path.getsize(trace_file) == 0:
        return {"events": 0, "behaviours": 0, "nviol": 0, "viol": [], "hits": {}, "wall_s": 0.0}
    cfg = "SPECIFICATION TSpec\nPOSTCONDITION Accepted\nCHECK_DEADLOCK FALSE\n"
    r = run_tlc(module, cfg, name + ".mon", outdir, workers=1, timeout=timeout, env={"TRACE": trace_file},
                xmx="6g", deque=True)
    txt = open(r["out"], errors="replace").read()
    m = re.search(r'^<<"VERDICT", (".*")>>$', txt, re.M)
    if not m or r["error"]:
        raise ToolError(f"monitor did not accept trace {trace_file}: {r['error']} (see {r['out']})")
    v = json.loads(json.loads(m.group(1)))
    v["wall_s"] = r["wall_s"]
    return v


# ----------------------------------------------------------------------------- known findings
def known_findings():
    p = os.path.join(ROOT, "known_findings.json")
    if os.path.exists(p):
        return json.load(open(p))
    return {"findings": [], "fixed": []}


# ----------------------------------------------------------------------------- evidence
def write_evidence(prop, tier, level, coverage, assumptions, wall, violations):
    os.makedirs(EVID, exist_ok=True)
    ev = {"property_id": prop, "tier": tier, "seed": seed(), "level": level, "coverage": coverage,
          "assumptions": assumptions, "wall_s": round(wall, 1), "violations": violations}
    with open(os.path.join(EVID, prop + ".json"), "w") as f:
        json.dump(ev, f, indent=1, sort_keys=True)


def main(argv):
    from engines import dispatch
    if not argv:
        print(__doc__)
        return 2
    try:
        return dispatch(argv)
    except ToolError as e:
        print(f"TOOL-ERROR: {e}", file=sys.stderr)
        return 2
    except subprocess.TimeoutExpired as e:
        print(f"TOOL-ERROR: timeout {e}", file=sys.stderr)
        return 2
