"""Engines (one per specification family) and the per-property checks built on them."""
import hashlib
import json
import shutil
import os
import sys
import time

import gcv
from gcv import (ToolError, WORK, SPEC, ROOT, log, memo, run_tlc, cfg_text, tla_set, extract_behaviours,
                 build_harness, replay_and_judge, write_evidence, known_findings, seed, tree_key, NCPU)

# ============================================================================= core engine
# GcHeap.tla / MC_GcHeap.tla  ->  behaviours  ->  harness replay  ->  GcMonitor trace validation

CORE_PROPS = ["C01", "C02", "C03", "C04", "C05", "C06", "C07", "C08", "C11", "C14", "C20"]

# rules whose antecedent must have been true at least once for the run to count (vacuity control)
MUST_HIT = {
    "C01": ["C01.r1", "C01.r2", "C01.r3"],
    "C02": ["C02.r1", "C02.r2", "C02.r3", "C02.r4"],
    "C03": ["C03.r1", "C03.r2", "C03.r3"],
    "C04": ["C04.r1", "C04.r2", "C04.r3", "C04.r4", "C04.r5", "C04.r6", "C04.r8"],
    "C05": ["C05.r1", "C05.r2", "C05.r4", "C05.r5"],
    "C06": ["C06.r1", "C01.r1", "C01.r3"],
    "C07": ["C07.r1", "C07.r2", "C07.r3"],
    "C08": ["C08.r1", "C08.r2", "C08.r3"],
    "C11": ["C11.r1", "C01.r1", "C02.r1", "C04.r4"],
    "C14": ["C14.r1", "C14.r2", "C14.r4", "C01.r1", "C02.r1"],
    "C20": ["C20.r1", "C20.r2", "C20.r3", "C01.r1", "C04.r4"],
}

# which monitor rules decide which property (a rule named Cxx.* always decides Cxx)
ALSO = {
    "C06": ["C06"],
}

MODEL_INVS = {
    "C01": ["Structural", "C01_NoLostReachable", "AccSafe"],
    "C02": ["Structural", "C02_Exact"],
    "C03": ["Structural", "AccSafe", "C03_MutatorFrame"],
    "C04": ["Structural", "C04_DropAll"],
    "C05": ["Structural", "C05_WeakBlock", "C05_UpgradeComplete", "C05_UpgradeSound", "AccSafe"],
    "C06": ["Structural", "C01_NoLostReachable", "C05_WeakBlock", "C06_BookkeepingOnly"],
    "C07": ["Structural", "C07_NoDeadReachable", "C07_DeadExact", "C07_ResurrectHolds"],
    "C08": ["Structural", "C08_PhaseProtocol"],
    "C11": ["Structural", "PropertyInvs (all of C01-C07, over the fault-extended Next)"],
    "C14": ["C14_SlotsWF", "C14_HandleResolves", "C14_KeepsAlive", "C01_NoLostReachable", "C02_Exact", "Structural"],
    "C20": ["C20_Frame", "Invs (per-arena safety)"],
}

ALL_INVS = ["Structural", "PropertyInvs"]
ALL_PROPS = ["C03_MutatorFrame", "C06_BookkeepingOnly", "C08_PhaseProtocol"]


def heap_constants(n_obj=2, kinds=("N",), budgets=(1, 2), grans=("P1", "P2"), max_ops=0, emit="none",
                   vias=("mutate_root",), max_kids=2, max_weak=1, barrier_only=False, finalize=True, drop=True,
                   many=False, fault_ats=(), max_handles=0, weak=True, unlink=True, debt_calls=True, leak=False, dfault_ats=(), prelude=""):
    objs = ", ".join(f"o{i + 1}" for i in range(n_obj))
    return {
        "Obj": "{" + objs + "}", "NoObj": "NoObj", "MaxKids": max_kids, "MaxWeak": max_weak,
        "Kinds": tla_set(kinds), "Budgets": tla_set(budgets, quote=False), "Grans": tla_set(grans),
        "MaxOps": max_ops, "Emit": f'"{emit}"', "RootViaSet": tla_set(vias),
        "WithBarrierOnly": "TRUE" if barrier_only else "FALSE", "WithFinalize": "TRUE" if finalize else "FALSE",
        "WithDrop": "TRUE" if drop else "FALSE", "WithMany": "TRUE" if many else "FALSE",
        "FaultAts": tla_set(fault_ats, quote=False), "MaxHandles": max_handles,
        "WithWeak": "TRUE" if weak else "FALSE", "WithUnlink": "TRUE" if unlink else "FALSE",
        "WithDebtCalls": "TRUE" if debt_calls else "FALSE", "WithLeak": "TRUE" if leak else "FALSE",
        "DFaultAts": tla_set(dfault_ats, quote=False), "Prelude": f'"{prelude}"',
    }


def heap_cfg(constants, emit):
    sym = None if constants.get("Prelude", '""') != '""' else "Perms"     # a scripted prefix names objects: no symmetry
    if emit == "walks":
        # random walks (tlc -simulate): no state constraint (it would make TLC re-draw the last step)
        return cfg_text(spec="SpecEmit", constants=constants, invariants=ALL_INVS + ["EmitStates"], view="vw")
    return cfg_text(spec="SpecEmit", constants=constants, invariants=ALL_INVS + (["EmitStates"] if emit == "states" else []),
                    properties=ALL_PROPS, constraints=["Bounded"],
                    action_constraints=(["EmitClasses"] if emit in ("classes", "pairs") else []),
                    symmetry=sym, view="vwp" if emit == "pairs" else "vw")


def model_error(r):
    """A counterexample in the MODEL is a defect of the specification (or a genuine design
    error), never a verdict about the code: tool error."""
    if r["error"]:
        raise ToolError(f"TLC run {r['name']} failed: {r['error']} (see {r['out']})")


def two_arenas_cfg(max_ops, menu="base"):
    consts = {"Obj": "{o1, o2}", "NoObj": "NoObj", "MaxKids": 2, "MaxWeak": 1, "Kinds": '{"N"}', "Budgets": "{1}",
              "Grans": '{"P1"}', "MaxHandles": 2 if menu == "dyn" else 0, "MaxOps": max_ops, "Emit": '"states"',
              "Menu": f'"{menu}"'}
    return cfg_text(spec="Spec", constants=consts, invariants=["Invs", "EmitStates"], properties=["C20_Frame"],
                    constraints=["Bounded"], symmetry="Perms", view="vw")


def core_models(tier, d):
    """The model-only half: TLC on the concrete specification, emitting behaviours.  Depends on
    the specification only (never on /repo), so it is memoised under a hash of spec/."""
    tlc_runs = []
    beh_files = []
    workers = 5
    quick = tier == "quick"

    def run(name, module, cfg, per_class, limit, timeout, sim=None):
        # each TLC job is memoised by itself (the modules it reads, its configuration, how behaviours are
        # extracted): changing one job's bounds does not re-run the others
        mods = ["GcHeap.tla", module + ".tla"]
        jkey = hashlib.sha256((gcv._hash_paths([os.path.join(SPEC, x) for x in mods] + [os.path.join(ROOT, "runner", "gcv.py")])
                               + cfg + repr((per_class, limit, sim, seed()))).encode()).hexdigest()[:20]

        def job(jd):
            r = run_tlc(module, cfg, name, jd, workers=workers, timeout=timeout, xmx="10g", simulate=sim[0] if sim else None,
                        depth=sim[1] if sim else None)
            model_error(r)
            f = os.path.join(jd, f"beh_{name}.ndjson")
            n, ncls = extract_behaviours(r["out"], f, per_class=per_class, limit=limit)
            r["behaviours"], r["classes"] = n, ncls
            os.remove(r["out"])
            r["beh_file"] = f
            return r

        r, _ = memo(f"tlc-{tier}-{name}", jkey, job)
        tlc_runs.append(r)
        beh_files.append((name, r["beh_file"]))

    ALLK = ("N", "S", "L", "O", "F")
    VIAS = ("mutate_root", "map_root", "try_map_root")

    def hc(emit, **kw):
        return heap_cfg(heap_constants(emit=emit, **kw), emit)

    jobs = [
        # (1) N2 complete, all invariants, witness behaviours per transition class
        ("n2_classes", "MC_GcHeap", hc("classes", n_obj=2, many=True), 3 if quick else 8, None, 9000),
        # (2) every object kind / storage path of C06, behaviours of bounded length
        ("n2_kinds", "MC_GcHeap", hc("classes", n_obj=2, kinds=ALLK, max_ops=5 if quick else 6, barrier_only=True, vias=VIAS),
         2, None, 12000),
        # (3) fault injection (C11): trace panics at the k-th trace call after j children, panicking
        #     callbacks, failing constructors and root maps
        ("n2_faults", "MC_GcHeap", hc("classes", n_obj=2, fault_ats=(0, 1), vias=VIAS, max_ops=6 if quick else 7), 2, None, 12000),
        # (4) dynamic root sets (C14): a set, two nodes, two handles; stash / clone / drop / slot reuse.
        #     Witnesses per PAIR of transition classes, so that what follows a stash is replayed too.
        ("n3_dyn", "MC_GcHeap", hc("pairs", n_obj=3, max_handles=2, finalize=False, budgets=(1,), grans=("P1",),
                                   weak=False, unlink=False, max_ops=6), 1, None, 14000),
        # (4a) dynamic roots, PATH diversity: the implementation's slot table has history the model's state does not
        #      (a recycled slot), so covering states or classes is not enough; seeded random walks (tlc -simulate)
        ("n2_dynwalk", "MC_GcHeap", hc("walks", n_obj=2, max_handles=2, finalize=False, budgets=(1,), grans=("P1",), weak=False,
                                       unlink=False, debt_calls=False, drop=False, max_ops=12), None, 12000 if quick else 120000, 3000,
         ("num=600" if quick else "num=6000", 13)),
        # (4b) consequences: one witness per (class of transition, operation that follows it)
        ("n2_pairs", "MC_GcHeap", hc("pairs", n_obj=2, many=True, max_ops=5 if quick else 6), 1, None, 12000),
        # (4c) a RefLock frozen by a leaked RefMut (safe code): tracing it must panic, never skip it
        ("n2_leak", "MC_GcHeap", hc("pairs", n_obj=2, leak=True, finalize=False, drop=False, debt_calls=False, budgets=(1,),
                                    grans=("P1",), max_ops=5 if quick else 6), 1, None, 9000),
        # (4d) a user destructor that panics while the collector (or the arena's drop) runs it; the collection is
        #      resumed afterwards: nothing is destructed twice, is_dropped stays exact
        ("n2_dfaults", "MC_GcHeap", hc("classes", n_obj=2, dfault_ats=(0, 1), finalize=False, grans=("P1",),
                                       max_ops=6 if quick else 7), 2, None, 9000),
        # (4e) three objects, DEEP: exhaustive exploration (pair witnesses) of what can follow a scripted prelude that
        #      builds a heap breadth-first search cannot afford to reach (a dead shell weakly held by one of two rooted
        #      nodes; weakly held garbage one cycle earlier; a chain that survived a cycle)
        ("n3_shell", "MC_GcHeap", hc("pairs", n_obj=3, finalize=False, drop=False, budgets=(1,), grans=("P1",),
                                     prelude="shell", max_ops=6 + (3 if quick else 4)), 1, None, 9000),
        ("n3_weakgarbage", "MC_GcHeap", hc("pairs", n_obj=3, finalize=False, drop=False, budgets=(1,), grans=("P1",),
                                           prelude="weakgarbage", max_ops=6 + 3), 1, None, 6000),
        ("n3_weakchain", "MC_GcHeap", hc("pairs", n_obj=3, finalize=True, drop=False, budgets=(1,), grans=("P1",), debt_calls=False,
                                         prelude="weakchain", max_ops=5 + (2 if quick else 3)), 1, None, 9000),
        ("n3_mixed", "MC_GcHeap", hc("pairs", n_obj=3, finalize=False, drop=True, budgets=(1, 2), grans=("P1",),
                                     prelude="mixed", max_ops=5 + (2 if quick else 3)), 1, None, 9000),
        ("n3_chain", "MC_GcHeap", hc("pairs", n_obj=3, finalize=False, drop=False, budgets=(1,), grans=("P1",),
                                     prelude="chain", max_ops=4 + (2 if quick else 3)), 1, None, 6000),
        # (5) two arenas on one thread (C20): interleavings of a reduced menu
        ("two_arenas", "TwoArenas", two_arenas_cfg(4 if quick else 5), None, 12000 if quick else 200000, 3000),
        # (5a) one arena after the other on the same thread, dynamic-root handles of the first surviving it: with the
        #      harness allocator in reuse mode the second arena is handed the first one's addresses
        ("two_arenas_dyn", "TwoArenas", two_arenas_cfg(8 if quick else 10, "dyn"), None, 20000 if quick else 200000, 3000),
    ]
    if not quick:
        # (6) N2 complete: one behaviour per distinct state (state cover)
        jobs.append(("n2_states", "MC_GcHeap", hc("states", n_obj=2), None, None, 9000))
        # (7) N3, every behaviour of at most 6 operations, class witnesses
        jobs.append(("n3_k5", "MC_GcHeap", hc("classes", n_obj=3, max_ops=5, many=True), 3, None, 9000))
    par = 3
    from concurrent.futures import ThreadPoolExecutor
    # longest first, so that the two lanes finish together
    first = ["n2_pairs", "n2_kinds", "n3_dyn", "n3_k5", "n2_states", "n2_classes", "n3_weakgarbage", "n2_faults", "n3_chain"]
    sched = sorted(jobs, key=lambda j: first.index(j[0]) if j[0] in first else len(first))
    with ThreadPoolExecutor(max_workers=par) as ex:
        list(ex.map(lambda j: run(*j), sched))
    order = {j[0]: i for i, j in enumerate(jobs)}
    tlc_runs.sort(key=lambda r: order[r["name"]])
    beh_files.sort(key=lambda b: order[b[0]])
    return {"tlc": tlc_runs, "beh_files": beh_files}


def get_models(tier):
    """The memoised model runs of a tier; recomputed if a behaviour file it names has gone."""
    for _ in range(2):
        models, md = memo("model-" + tier, spec_key(f"-{seed()}"), lambda dd: core_models(tier, dd))
        if all(os.path.exists(f) for _, f in models["beh_files"]):
            return models, md
        shutil.rmtree(md, ignore_errors=True)
    raise ToolError("model behaviour files missing after recomputation")


MODEL_FILES = ["GcHeap.tla", "MC_GcHeap.tla", "MC_Pacing.tla", "TwoArenas.tla"]
TRACE_FILES = ["GcMonitor.tla", "GcMonitorTrace.tla", "GcArenaTrace.tla"]


def spec_key(extra=""):
    """Key of the model-only runs: the specification modules they read and the runner code that
    configures them (never /repo)."""
    paths = [os.path.join(SPEC, f) for f in MODEL_FILES] + [os.path.join(ROOT, "runner", f) for f in ("gcv.py", "engines.py")]
    return gcv._hash_paths(paths)[:20] + extra


def core_key(extra=""):
    """Key of the implementation-facing runs: /repo's sources, the harness, the specifications."""
    paths = [os.path.join(gcv.REPO, p) for p in ("src", "derive/src", "derive/Cargo.toml", "Cargo.toml", "Cargo.lock")]
    paths += [os.path.join(SPEC, f) for f in MODEL_FILES + TRACE_FILES]
    paths += [os.path.join(gcv.HARN, "src"), os.path.join(gcv.HARN, "Cargo.toml"), os.path.join(ROOT, "known_findings.json")]
    paths += [os.path.join(ROOT, "runner", f) for f in ("gcv.py", "engines.py")]
    return gcv._hash_paths(paths)[:20] + extra


def core_engine(tier, d):
    t0 = time.time()
    models, md = get_models(tier)
    tlc_runs = models["tlc"]
    beh_files = [tuple(x) for x in models["beh_files"]]
    replays = {}
    samples = []
    bf = {}
    # debug build: overflow checks and debug assertions of the crate are on; release build: what
    # users run (a debug_assert that masks a defect in debug builds is not there)
    for profile in ("debug", "release"):
        binary = build_harness(profile)
        for name, f in beh_files:
            shards = 8 if tier == "quick" else 14
            src = f"{name}:{profile}"
            res = replay_and_judge(binary, f, d, f"{name}.{profile}", shards=shards)
            replays[src] = res
            bf[src] = f
            if profile == "debug":
                with open(f) as fh:
                    for i, line in enumerate(fh):
                        if i in (5, 400, 2500) and len(samples) < 6:
                            samples.append(json.loads(line).get("ops"))
            # the result must be self-contained: attach the offending behaviours now
            for v in res["viol"][:40]:
                v["behaviour"] = behaviour_at(f, v["beh"])
            # traces are large; keep only those that contain a violation
            keep = {v["trace"] for v in res["viol"]}
            for i in range(shards):
                tr = os.path.join(d, f"{name}.{profile}.{i}.trace.ndjson")
                if tr not in keep and os.path.exists(tr):
                    os.remove(tr)
    return {"tier": tier, "tlc": tlc_runs, "replays": replays, "beh_files": bf, "samples": samples,
            "nontrivial": count_nontrivial(bf),
            "models_memoised": models.get("memoised", False), "wall_s": round(time.time() - t0, 1)}


def merged_replays(res):
    m = {"behaviours": 0, "runs": 0, "ops": 0, "events": 0, "drift": 0, "diverged": 0, "skipped_ops": 0, "viol": [],
         "hits": {}, "crashes": [], "drift_samples": []}
    for name, r in res["replays"].items():
        for k in ("behaviours", "runs", "ops", "events", "drift", "diverged", "skipped_ops"):
            m[k] += r[k]
        for v in r["viol"]:
            v = dict(v)
            v["source"] = name
            m["viol"].append(v)
        for k, n in r["hits"].items():
            m["hits"][k] = m["hits"].get(k, 0) + n
        m["crashes"] += r["crashes"]
        m["drift_samples"] += r["drift_samples"][:2]
    return m


def behaviour_at(path, idx):
    try:
        with open(path) as f:
            for i, line in enumerate(f):
                if i == idx:
                    return json.loads(line)
    except OSError:
        pass
    return None


def report_violations(prop, viols, res, findings):
    """Print KNOWN-FINDING / VIOLATION lines.  Returns the number of new violations."""
    new = 0
    printed_known = set()
    seen_paths = set()
    os.makedirs(os.path.join(WORK, "replays"), exist_ok=True)
    for v in viols:
        kf = match_finding(prop, v, findings)
        if kf:
            if kf["id"] not in printed_known:
                print(f"KNOWN-FINDING: property={prop} {kf['id']}: {kf['what']}")
                printed_known.add(kf["id"])
            continue
        path = os.path.join(WORK, "replays", f"{prop}_{v.get('source', 'x').replace(':', '-')}_{v['beh']}_{v['rule']}.json")
        if path in seen_paths:
            continue        # the same rule broken again later in the same behaviour
        seen_paths.add(path)
        new += 1
        if new > 5:
            continue
        beh = v.get("behaviour")
        if beh is None and v.get("source") in res.get("beh_files", {}):
            beh = behaviour_at(res["beh_files"][v["source"]], v["beh"])
        json.dump({"property": prop, "rule": f"{v['prop']}.{v['rule']}", "object": v["obj"], "trace_line": v["line"],
                   "engine": v.get("engine", "core"), "source": v.get("source"), "behaviour": beh,
                   "profile": (v.get("source") or ":debug").split(":")[-1],
                   "extra": v.get("extra")}, open(path, "w"), indent=1)
        print(f"VIOLATION property={prop} replay={path}")
    return new


def match_finding(prop, v, findings):
    for f in findings.get("findings", []):
        if f["property"] != prop:
            continue
        mt = f.get("match", {})
        if mt.get("rule") and mt["rule"] != f"{v['prop']}.{v['rule']}":
            continue
        if mt.get("extra_contains") and mt["extra_contains"] not in json.dumps(v.get("extra", "")):
            continue
        return f
    return None


def check_core(prop, tier):
    t0 = time.time()
    key = core_key(f"-{tier}-{seed()}")
    res, d = memo("core-" + tier, key, lambda dd: core_engine(tier, dd))
    m = merged_replays(res)
    if m["crashes"]:
        raise ToolError(f"harness crashed while replaying: {m['crashes'][:1]}")
    decides = [prop] + ALSO.get(prop, [])
    viols = [v for v in m["viol"] if v["prop"] in decides]
    if prop == "C14":
        # keeps alive / becomes collectable: the C01 / C02 / C05 rules on the dynamic-root executions
        viols += [v for v in m["viol"] if v["prop"] in ("C01", "C02", "C05") and v["source"].startswith(("n3_dyn", "n2_dynwalk"))]
    if prop == "C20":
        # a crash that needs the history of earlier arenas of the same thread is shared state between arenas
        viols += [v for v in m["viol"] if v["rule"] == "crash" and (v.get("extra") or {}).get("crash", {}).get("how") in ("with-history", "unconfirmed")
                  and v not in viols]
        # each arena's C01-C05 guarantees hold regardless of what is done to the other
        viols += [v for v in m["viol"] if v["prop"] in ("C01", "C02", "C03", "C04", "C05", "C14") and v["source"].startswith("two_arenas")]
    if prop == "C11":
        # "after the unwind is caught the arena continues to satisfy C01-C05": the same rules, on
        # the executions that contain injected faults
        viols += [v for v in m["viol"] if v["prop"] in ("C01", "C02", "C03", "C04", "C05") and v["source"].startswith("n2_faults")]
    sat_new = 0
    sat_cov = None
    if prop == "C11":
        # "... if an element constructor passed to a slice builder panics at any index ... an abandoned builder
        # destructs exactly the parts that were initialised": the builder life cycles of Builder.tla (satellite of C18)
        import engines_sat
        sc = engines_sat.sat_collect("C18")
        os.makedirs(os.path.join(WORK, "replays"), exist_ok=True)
        for x in sc["viols"][:6]:
            rec = sc["recs"][x["index"] - 1] if 0 < x["index"] <= len(sc["recs"]) else None
            path = os.path.join(WORK, "replays", f"C11_builder_{x['index']}_{x['rule'].replace(':', '-')}.json")
            json.dump({"property": "C11", "sat_property": "C18", "engine": "sat", "rule": f"C18.{x['rule']}", "record": rec, "detail": x},
                      open(path, "w"), indent=1)
            print(f"VIOLATION property=C11 replay={path}")
        sat_new = len(sc["viols"])
        sat_cov = {"builder_life_cycles_executed": len(sc["recs"]), "builder_violations": sat_new,
                   "builder_model_states": sc["model"]["tlc"]["distinct"]}
    tool = [v for v in m["viol"] if v["prop"] == "TOOL"]
    if tool:
        raise ToolError(f"monitor could not interpret the trace: {tool[:2]}")
    missing = [r for r in MUST_HIT[prop] if m["hits"].get(r, 0) == 0]
    if missing:
        raise ToolError(f"vacuous run: rules never exercised: {missing}")
    new = report_violations(prop, viols, res, known_findings())
    states = sum(r["distinct"] for r in res["tlc"])
    trans = sum(r["generated"] for r in res["tlc"])
    accepted = m["runs"] - len({(v["source"], v["beh"]) for v in m["viol"]})
    nontrivial = res.get("nontrivial") or count_nontrivial(res["beh_files"])
    cov = {
        "states": states, "transitions": trans,
        "traces_validated_against_impl": max(accepted, 0),
        "evaluations": m["runs"], "distinct_nontrivial": nontrivial,
        "rule": "behaviours are emitted by TLC (one witness per transition class / per distinct state of the bounded model) and "
                "replayed through the public API; a behaviour is counted as non-trivial when it contains at least one mutator "
                "operation AND at least one collection call or arena drop; behaviours are distinct by construction (distinct "
                "class or state) and are counted once however many epilogues / build profiles replay them",
        "samples": res["samples"][:4],
        "exhaustive": False,
        "tlc_runs": [{k: r.get(k) for k in ("name", "distinct", "generated", "depth", "complete", "wall_s", "behaviours", "classes")}
                     for r in res["tlc"]],
        "model_invariants_checked": MODEL_INVS[prop],
        "behaviours_replayed": m["behaviours"], "replay_runs": m["runs"], "operations_replayed": m["ops"],
        "trace_events_judged": m["events"],
        "drift_behaviours": m["drift"], "diverged_behaviours": m["diverged"],
        "monitor_rule_hits": {k: v for k, v in sorted(m["hits"].items()) if k.split(".")[0] in decides or k in MUST_HIT[prop]},
        "shared_run_memoised": res.get("memoised", False), "shared_run_wall_s": res["wall_s"],
        "checker_cmd": "tlc MC_GcHeap.tla (model) ; gcv-harness replay ; tlc GcMonitorTrace.tla (trace validation)",
    }
    if sat_cov:
        cov["slice_builder_faults"] = sat_cov
    level = "exploration" if prop == "C20" else "model_checking"
    write_evidence(prop, tier, level, cov, CORE_ASSUMPTIONS, time.time() - t0, len(viols) + sat_new)
    return 1 if (new or sat_new) else 0


def count_nontrivial(beh_files):
    """Distinct behaviours (over all emitted files) with at least one mutator operation and at
    least one collection call / drop."""
    seen = set()
    n = 0
    coll = {"call", "start_sweeping", "finalize", "drop_arena"}
    for f in sorted(set(beh_files.values())):
        try:
            fh = open(f)
        except OSError:
            continue
        with fh:
            for line in fh:
                try:
                    ops = json.loads(line).get("ops", [])
                except json.JSONDecodeError:
                    continue
                key = hash(json.dumps(ops, sort_keys=True))
                if key in seen:
                    continue
                seen.add(key)
                names = {o.get("op") for o in ops}
                if names & coll and names - coll:
                    n += 1
    return n


CORE_ASSUMPTIONS = [
    "exhaustive only within the stated bounds (2 objects complete; 3 objects up to 6 operations in the thorough tier)",
    "collector increments are driven through the public API by setting pacing and debt (DESIGN.md 4.2)",
    "the tracking allocator sees every allocation gc-arena makes for harness values",
    "the monitor takes the weaker reading where a statement is ambiguous (DESIGN.md 5.1)",
]


# ============================================================================= pacing engine
# MC_Pacing.tla (GcHeap with the real debt arithmetic) -> behaviours replayed with EQUALITY of the
# scaled debt after every operation; random driver with natural pacing; GcMonitor rules C09.*, C10.*

PACINGS = {            # (sf, ms, mf, tf, kf, df, ff) in 16ths
    "stw": (16, 0, 0, 0, 0, 0, 0),
    "default_like": (8, 1, 2, 6, 1, 3, 5),
    "near_limit": (16, 2, 5, 9, 1, 8, 7),
    "no_sleep": (0, 0, 1, 2, 1, 1, 2),
}
PACING_PROPS = ["C09_CollectDebtPays", "C09_StopOrPaid", "C09_StopTheWorld", "C09_RhoBound", "C10_AdjustExact",
                "C10_MutatorNeverPays"]


def pacing_cfg(pq, n=2, max_ops=6, adjusts=(16, 48), emit="states", kinds=("N", "S")):
    objs = ", ".join(f"o{i + 1}" for i in range(n))
    consts = {"Obj": "{" + objs + "}", "NoObj": "NoObj", "MaxKids": 2, "MaxWeak": 1, "Kinds": tla_set(kinds),
              "Budgets": "{1}", "Grans": '{"P1"}', "MaxHandles": 0, "SF": pq[0], "MS": pq[1], "MF": pq[2], "TF": pq[3], "KF": pq[4],
              "DF": pq[5], "FF": pq[6], "MaxOps": max_ops, "Adjusts": tla_set(adjusts, quote=False), "Emit": f'"{emit}"'}
    return cfg_text(spec="Spec", constants=consts, invariants=["Invs"] + (["EmitStates"] if emit == "states" else []),
                    properties=PACING_PROPS, constraints=["Bounded"], symmetry="Perms", view="vw")


def pacing_models(tier, d):
    runs, files = [], []
    jobs = []
    for name, pq in PACINGS.items():
        jobs.append((name, pq, 6 if tier == "quick" else 7, (16, 48) if tier == "quick" else (16, 48, 160)))   # (negative adjustments: random driver; a cfg file cannot hold a negative number)

    def run(job):
        name, pq, k, adj = job
        r = run_tlc("MC_Pacing", pacing_cfg(pq, max_ops=k, adjusts=adj), "pac_" + name, d, workers=7, timeout=3000, xmx="10g")
        model_error(r)
        f = os.path.join(d, f"beh_pac_{name}.ndjson")
        n, _ = extract_behaviours(r["out"], f, limit=80000 if tier == "quick" else 600000)
        r["behaviours"] = n
        os.remove(r["out"])
        return r, (name, f)

    from concurrent.futures import ThreadPoolExecutor
    with ThreadPoolExecutor(max_workers=2) as ex:
        for r, bf in ex.map(run, jobs):
            runs.append(r)
            files.append(bf)
    return {"tlc": runs, "beh_files": files}


def random_runs(binary, d, name, shards, runs_per_shard, steps, sd):
    """Seeded random driver, judged by the monitor."""
    def one(i):
        tr = os.path.join(d, f"{name}.{i}.trace.ndjson")
        rp = os.path.join(d, f"{name}.{i}.report.json")
        p = gcv.run_harness(binary, ["random", "--seed", str(sd), "--first", str(i * runs_per_shard), "--runs",
                                     str(runs_per_shard), "--steps", str(steps), "--trace", tr, "--report", rp])
        if p.returncode != 0:
            return {"crash": True, "rc": p.returncode, "stderr": p.stderr[-2000:], "shard": i, "trace": tr}
        rep = json.load(open(rp))
        v = gcv.monitor(tr, d, f"{name}.{i}", timeout=3000)
        return {"crash": False, "report": rep, "verdict": v, "shard": i, "trace": tr}

    from concurrent.futures import ThreadPoolExecutor
    with ThreadPoolExecutor(max_workers=min(shards, NCPU)) as ex:
        parts = list(ex.map(one, range(shards)))
    m = {"behaviours": 0, "runs": 0, "ops": 0, "events": 0, "drift": 0, "diverged": 0, "skipped_ops": 0, "viol": [],
         "nviol": 0, "hits": {}, "crashes": [], "drift_samples": [], "debt_drift": 0, "debt_checked": 0}
    for p in parts:
        if p["crash"]:
            m["crashes"].append({"shard": p["shard"], "rc": p["rc"], "stderr": p["stderr"]})
            continue
        rep, v = p["report"], p["verdict"]
        for k in ("behaviours", "runs", "ops", "events"):
            m[k] += rep.get(k, 0)
        m["nviol"] += v["nviol"]
        for x in v["viol"]:
            m["viol"].append({"prop": x[0], "rule": x[1], "line": x[2], "obj": x[3], "beh": x[4], "trace": p["trace"],
                              "extra": {"random": True, "seed": sd, "run": x[4], "steps": steps}})
        for k, n in v["hits"].items():
            m["hits"][k] = m["hits"].get(k, 0) + n
        if not v["viol"] and os.path.exists(p["trace"]):
            os.remove(p["trace"])
    return m


GAT_CFG = ("SPECIFICATION TSpec\nCONSTANTS\n  Obj <- TraceIds\n  NoObj = 0\n  MaxKids = 4\n  MaxWeak = 3\n  Kinds = {\"N\", \"S\"}\n"
           "  Budgets = {1}\n  Grans = {\"P1\"}\n  MaxHandles = 0\nPOSTCONDITION Accepted\nCHECK_DEADLOCK FALSE\n")


def strict_validation(binary, d, tier, sd):
    """Implementation -> CONCRETE specification (GcArenaTrace.tla): random-driver executions are replayed in
    GcHeap.tla with the operators TLC model-checks; every logged internal snapshot must equal the model's state."""
    import re
    n, runs, steps = (2, 1, 50) if tier == "quick" else (6, 1, 120)

    def one(k):
        tr = os.path.join(d, f"strict.{k}.ndjson")
        p = gcv.run_harness(binary, ["random", "--seed", str(sd + 7000 + k), "--runs", str(runs), "--steps", str(steps), "--max-objs", "24",
                                     "--trace", tr, "--report", tr + ".rep"])
        if p.returncode != 0:
            return {"crash": True}
        r = run_tlc("GcArenaTrace", GAT_CFG, f"strict.{k}", d, workers=1, timeout=2400, env={"TRACE": tr}, deque=True, xmx="6g")
        txt = open(r["out"], errors="replace").read()
        m = re.search(r'^<<"VERDICT", (".*")>>$', txt, re.M)
        os.remove(tr)
        if not m or r["error"]:
            return {"error": r["error"] or "no verdict", "wall_s": r["wall_s"]}
        v = json.loads(json.loads(m.group(1)))
        v["wall_s"] = r["wall_s"]
        return v

    from concurrent.futures import ThreadPoolExecutor
    with ThreadPoolExecutor(max_workers=min(n, 6)) as ex:
        parts = list(ex.map(one, range(n)))
    return {"traces": n, "events": sum(p.get("events", 0) for p in parts), "snapshots_compared": sum(p.get("snapshots", 0) for p in parts),
            "objects": sum(p.get("objects", 0) for p in parts), "drift": [p["drift"] for p in parts if p.get("drift")],
            "errors": [p for p in parts if p.get("error") or p.get("crash")], "wall_s": max([p.get("wall_s", 0) for p in parts] + [0])}


def pacing_engine(tier, d):
    t0 = time.time()
    models, md = memo("pmodel-" + tier, spec_key(f"-{seed()}"), lambda dd: pacing_models(tier, dd))
    replays, bf = {}, {}
    samples = []
    for profile in ("debug", "release"):
        binary = build_harness(profile)
        for name, f in [tuple(x) for x in models["beh_files"]]:
            src = f"pac_{name}:{profile}"
            # every behaviour is replayed with exact comparison of the debt; the monitor judges a sample
            sub = os.path.join(d, f"sub_{name}.ndjson")
            with open(f) as fi, open(sub, "w") as fo:
                for i, line in enumerate(fi):
                    if i % 16 == 0:
                        fo.write(line)
                    if profile == "debug" and i in (3, 3000) and len(samples) < 4:
                        samples.append(json.loads(line).get("ops"))
            rp = os.path.join(d, f"{name}.{profile}.full.report.json")
            tr = os.path.join(d, f"{name}.{profile}.full.trace.ndjson")
            p = gcv.run_harness(binary, ["replay", "--in", f, "--trace", tr, "--report", rp, "--epilogues", "drop"])
            if os.path.exists(tr):
                os.remove(tr)
            if p.returncode != 0:
                raise ToolError(f"harness crashed replaying {f}: rc={p.returncode} {p.stderr[-500:]}")
            full = json.load(open(rp))
            res = replay_and_judge(binary, sub, d, f"pac_{name}.{profile}", shards=6, epilogues="c02")
            res["debt_checked"] = full.get("debt_checked", 0)
            res["debt_drift"] = full.get("debt_drift", 0)
            res["debt_drift_samples"] = [x for x in full.get("drift_samples", []) if x.get("fields") == ["debt"]][:3]
            res["full_behaviours"] = full.get("behaviours", 0)
            res["full_ops"] = full.get("ops", 0)
            replays[src] = res
            bf[src] = sub
            for i in range(6):
                t = os.path.join(d, f"pac_{name}.{profile}.{i}.trace.ndjson")
                if t not in {v["trace"] for v in res["viol"]} and os.path.exists(t):
                    os.remove(t)
        shards, per, steps = (8, 40, 150) if tier == "quick" else (16, 150, 200)
        rr = random_runs(binary, d, f"random.{profile}", shards, per, steps, seed())
        replays[f"random:{profile}"] = rr
    strict = strict_validation(build_harness("debug"), d, tier, seed())
    return {"tier": tier, "tlc": models["tlc"], "replays": replays, "beh_files": bf, "samples": samples, "strict": strict,
            "wall_s": round(time.time() - t0, 1)}


PACING_MUST_HIT = {
    "C09": ["C09.r1", "C09.r2", "C09.r2m", "C09.r3", "C09.r4", "C09.r5", "C09.r5b", "C09.r5i"],
    "C10": ["C10.r1", "C10.r2", "C10.r3", "C10.r4", "C10.r5", "C10.r6"],
}
PACING_INVS = {
    "C09": ["C09_CollectDebtPays", "C09_StopOrPaid", "C09_StopTheWorld", "C09_RhoBound", "C09_SleepHonoured"],
    "C10": ["C10_ZeroWhenEmpty", "C10_AdjustExact", "C10_MutatorNeverPays (F2 carved out by name)", "C10_NoCounterFault"],
}


def check_pacing(prop, tier):
    t0 = time.time()
    key = core_key(f"-{tier}-{seed()}")
    res, d = memo("pacing-" + tier, key, lambda dd: pacing_engine(tier, dd))
    m = merged_replays(res)
    if m["crashes"]:
        raise ToolError(f"harness crashed: {m['crashes'][:1]}")
    if prop == "C10":
        # the count / sign / zero rules are also judged on every trace of the core engine
        core, _ = memo("core-" + tier, key, lambda dd: core_engine(tier, dd))
        mc = merged_replays(core)
        for v in mc["viol"]:
            m["viol"].append(v)
        for k, n in mc["hits"].items():
            m["hits"][k] = m["hits"].get(k, 0) + n
        m["events"] += mc["events"]
        m["runs"] += mc["runs"]
        res["beh_files"].update(core["beh_files"])
    viols = [v for v in m["viol"] if v["prop"] == prop]
    tool = [v for v in m["viol"] if v["prop"] == "TOOL"]
    if tool:
        raise ToolError(f"monitor could not interpret the trace: {tool[:2]}")
    missing = [r for r in PACING_MUST_HIT[prop] if m["hits"].get(r, 0) == 0]
    if missing:
        raise ToolError(f"vacuous run: rules never exercised: {missing}")
    new = report_violations(prop, viols, res, known_findings())
    debt_checked = sum(r.get("debt_checked", 0) for r in res["replays"].values())
    debt_drift = sum(r.get("debt_drift", 0) for r in res["replays"].values())
    cov = {
        "states": sum(r["distinct"] for r in res["tlc"]), "transitions": sum(r["generated"] for r in res["tlc"]),
        "traces_validated_against_impl": max(m["runs"] - len({(v["source"], v["beh"]) for v in m["viol"] if v["prop"] == prop}), 0),
        "samples": res["samples"][:3],
        "exhaustive": False,
        "tlc_runs": [{k: r.get(k) for k in ("name", "distinct", "generated", "depth", "complete", "wall_s", "behaviours")} for r in res["tlc"]],
        "pacings_x16": PACINGS,
        "model_properties_checked": PACING_INVS[prop],
        "behaviours_replayed_with_exact_debt_comparison": debt_checked,
        "behaviours_whose_debt_differs_from_the_model": debt_drift,
        "random_driver_runs": sum(r["runs"] for k, r in res["replays"].items() if k.startswith("random")),
        "impl_to_concrete_spec_validation": res.get("strict"),
        "trace_events_judged": m["events"],
        "monitor_rule_hits": {k: v for k, v in sorted(m["hits"].items()) if k.startswith(prop)},
        "known_findings_seen": sorted({v["rule"] for v in viols if match_finding(prop, v, known_findings())}),
        "shared_run_memoised": res.get("memoised", False), "shared_run_wall_s": res["wall_s"],
        "checker_cmd": "tlc MC_Pacing.tla ; gcv-harness replay|random ; tlc GcMonitorTrace.tla",
    }
    write_evidence(prop, tier, "model_checking", cov, PACING_ASSUMPTIONS, time.time() - t0, len(viols))
    return 1 if new else 0


PACING_ASSUMPTIONS = [
    "debts are compared for EQUALITY only under dyadic pacing factors (k/16) and magnitudes far below 2^53, where the crate's f64 arithmetic is exact",
    "the rho bound is exhausted by TLC only for heaps of 2 objects; larger H is explored by the seeded random driver",
    "the sleep rule is applied after cycles that ran atomically from Sleeping (the weaker reading of 'no debt carried over')",
    "rule C10.r5f (a forward barrier that marks is credited mark_factor) is known finding F2, reported as KNOWN-FINDING",
]


# ============================================================================= dispatch
def dispatch(argv):
    cmd = argv[0]
    tier = "quick"
    if "--tier" in argv:
        tier = argv[argv.index("--tier") + 1]
    tier = os.environ.get("VERIF_TIER", tier)
    if cmd == "setup":
        return setup()
    if cmd == "replay":
        return replay_file(argv[1])
    if cmd in CORE_PROPS:
        return check_core(cmd, tier)
    if cmd in ("C09", "C10"):
        return check_pacing(cmd, tier)
    if cmd in ("C17", "C18", "C19"):
        import engines_sat
        return engines_sat.check_sat(cmd, tier)
    if cmd == "C12":
        import engines_sat
        return engines_sat.check_brand(tier)
    if cmd == "C13":
        import engines_sat
        return engines_sat.check_writecap(tier)
    if cmd in ("C15", "C16"):
        import engines_sat
        return engines_sat.check_shapes(cmd, tier)
    print(f"unknown command {cmd}", file=sys.stderr)
    return 2


def setup():
    import subprocess
    build_harness("debug")
    build_harness("release")
    import engines_sat
    engines_sat.build_sat()
    for f in sorted(os.listdir(SPEC)):
        if f.endswith(".tla"):
            p = subprocess.run(["tla-sany", f], cwd=SPEC, stdout=subprocess.PIPE, stderr=subprocess.STDOUT, text=True)
            if p.returncode != 0 or "*** Errors" in p.stdout or "Fatal" in p.stdout:
                print(p.stdout[-2000:])
                raise ToolError(f"SANY rejects {f}")
    # the model-only runs depend on the specification alone: do them once here (memoised)
    get_models("quick")
    memo("pmodel-quick", spec_key(f"-{seed()}"), lambda dd: pacing_models("quick", dd))
    print("setup ok")
    return 0


def replay_file(path):
    """Re-run one recorded counterexample: replay its behaviour, validate the trace."""
    rec = json.load(open(path))
    crash = (rec.get("extra") or {}).get("crash")
    if crash and crash.get("how") in ("with-history", "unconfirmed"):
        # the crash needs the same process history: re-run the shard up to that behaviour
        models, _ = get_models("quick")
        files = dict(tuple(x) for x in models["beh_files"])
        src, profile = rec["source"].split(":")
        binary = build_harness(profile)
        dd = os.path.join(WORK, "replay-one")
        os.makedirs(dd, exist_ok=True)
        p = gcv.run_harness(binary, ["replay", "--in", files[src], "--trace", os.path.join(dd, "t.ndjson"), "--report",
                                     os.path.join(dd, "r.json"), "--epilogues", crash["epilogues"], "--shard", crash["shard"],
                                     "--upto", str(crash["beh"])])
        print(f"harness exit status {p.returncode} (a negative status is a crash by that signal)")
        return 1 if p.returncode != 0 else 0
    if rec.get("engine") == "sat":
        import engines_sat
        return engines_sat.replay_sat(rec)
    d = os.path.join(WORK, "replay-one")
    os.makedirs(d, exist_ok=True)
    beh = os.path.join(d, "beh.ndjson")
    with open(beh, "w") as f:
        f.write(json.dumps(rec["behaviour"]) + "\n")
    binary = build_harness(rec.get("profile", "debug"))
    res = replay_and_judge(binary, beh, d, "one", shards=1)
    for v in res["viol"]:
        print(f"rule {v['prop']}.{v['rule']} broken at trace line {v['line']} (object {v['obj']})")
    print(json.dumps({"drift": res["drift"], "violations": res["nviol"]}))
    return 1 if res["viol"] else 0
