//! Replays behaviours emitted by TLC (spec -> implementation direction) through the public
//! API, compares the collector's internal state with the model's prediction after the last
//! operation ("drift"), and appends a property-specific epilogue.

use serde_json::{Value, json};

use crate::ALLOC;
use crate::ev;
use crate::world::*;

fn s<'a>(op: &'a Value, k: &str) -> &'a str {
    op.get(k).and_then(|v| v.as_str()).unwrap_or("")
}

/// Execute one model operation.  Returns false if the operation could not be carried out
/// (an operand was not accessible in the real heap: the implementation has diverged).
pub fn exec(w: &mut World, op: &Value) -> bool {
    let name = s(op, "op");
    let panics = op.get("panic").and_then(|v| v.as_bool()).unwrap_or(false);
    match name {
        "alloc_root" => {
            let (o, k, via) = (s(op, "o").to_string(), Kind::parse(s(op, "k")), Via::parse(s(op, "via")));
            w.edit_root(via, move |st, mc, root| {
                st.survey(mc, root, None);
                let p = st.alloc(mc, k, &o);
                let ser = st.serial_of(&o).unwrap();
                root.strong.push(p);
                st.root_s.push(ser);
                ev!("{{\"ev\":\"store\",\"a\":{},\"p\":0,\"c\":{},\"path\":\"{}\",\"effective\":true}}", st.id, ser, via.name());
                if panics {
                    st.panic_now(via != Via::MutateRoot);
                }
            });
            true
        }
        "failed_map_root" => {
            w.edit_root(Via::TryMapRoot, move |st, mc, root| {
                st.survey(mc, root, None);
                st.fail_next = true;
                st.unwind_point(true);
            });
            w.st.fail_next = false;
            true
        }
        "failed_new" => {
            let n = op.get("n").and_then(|v| v.as_u64()).unwrap_or(0) as usize;
            crate::world::failed_new(w.st.next_serial + 1000, n, s(op, "mode"));
            true
        }
        "alloc_temp" => {
            let (o, k) = (s(op, "o").to_string(), Kind::parse(s(op, "k")));
            w.mutate("alloc_temp", move |st, mc, root| {
                let mut held = st.survey(mc, root, None);
                let c = st.alloc(mc, k, &o);
                held.insert(st.serial_of(&o).unwrap(), c);
                st.recheck(&held);
                if panics {
                    st.panic_now(false);
                }
            });
            true
        }
        "alloc_into" => {
            let (o, k, p, path) = (s(op, "o").to_string(), Kind::parse(s(op, "k")), s(op, "p").to_string(), s(op, "path").to_string());
            let mut ok = true;
            let okr = &mut ok;
            w.mutate("alloc_into", move |st, mc, root| {
                let found = st.survey(mc, root, None);
                let Some(ps) = st.serial_of(&p) else { *okr = false; return };
                let Some(pp) = found.get(&ps).copied() else { *okr = false; st.diverged = true; return };
                let c = st.alloc(mc, k, &o);
                let cs = st.serial_of(&o).unwrap();
                *okr = st.store(mc, ps, pp, cs, c, &path);
                let mut held = found;
                held.insert(cs, c);
                st.recheck(&held);
            }) && ok
        }
        "leak" => {
            let p = s(op, "p").to_string();
            let mut ok = true;
            let okr = &mut ok;
            w.mutate("leak", move |st, mc, root| {
                let found = st.survey(mc, root, None);
                let Some(ps) = st.serial_of(&p) else { *okr = false; return };
                let Some(pp) = found.get(&ps).copied() else { *okr = false; st.diverged = true; return };
                *okr = st.leak(mc, ps, pp);
            });
            ok
        }
        "link" | "unlink" | "wlink" | "wunlink" | "barrier" => {
            let p = s(op, "p").to_string();
            let c = if op.get("c").is_some() { s(op, "c") } else { s(op, "t") }.to_string();
            let path = s(op, "path").to_string();
            let name = name.to_string();
            let mut ok = true;
            let okr = &mut ok;
            w.mutate(&name.clone(), move |st, mc, root| {
                let found = st.survey(mc, root, None);
                let (Some(ps), Some(cs)) = (st.serial_of(&p), st.serial_of(&c)) else { *okr = false; return };
                let Some(pp) = found.get(&ps).copied() else { *okr = false; st.diverged = true; return };
                *okr = match name.as_str() {
                    "unlink" => st.remove(mc, ps, pp, cs, &path),
                    "wunlink" => st.wremove(mc, ps, pp, cs, &path),
                    _ => {
                        let Some(cp) = found.get(&cs).copied() else { *okr = false; st.diverged = true; return };
                        match name.as_str() {
                            "link" => {
                                let r = st.store(mc, ps, pp, cs, cp, &path);
                                if panics {
                                    st.panic_now(false);
                                }
                                r
                            }
                            "wlink" => st.wstore(mc, ps, pp, cs, cp, &path),
                            _ => st.barrier_only(mc, ps, pp, cs, cp, &path),
                        }
                    }
                };
                st.recheck(&found);
            }) && ok
        }
        "new_set" => {
            let o = s(op, "o").to_string();
            w.edit_root(Via::MutateRoot, move |st, mc, root| {
                st.survey(mc, root, None);
                st.new_set(mc, root, &o);
            })
        }
        "remove_set" => {
            let d = s(op, "d").to_string();
            let mut ok = true;
            let okr = &mut ok;
            w.edit_root(Via::MutateRoot, move |st, mc, root| {
                st.survey(mc, root, None);
                *okr = st.remove_set(root, &d);
            }) && ok
        }
        "stash" => {
            let (d, c) = (s(op, "d").to_string(), s(op, "c").to_string());
            let hid = op.get("hid").and_then(|v| v.as_u64()).unwrap_or(0) as u32;
            let mut ok = true;
            let okr = &mut ok;
            w.mutate("stash", move |st, mc, root| {
                let found = st.survey(mc, root, None);
                let Some((cs, cp)) = st.serial_of(&c).and_then(|x| found.get(&x).map(|q| (x, *q))) else {
                    *okr = false;
                    st.diverged = true;
                    return;
                };
                *okr = st.stash(mc, root, &d, cs, cp, hid);
            }) && ok
        }
        "clone_handle" => {
            let (h1, h2) = (op.get("hid").and_then(|v| v.as_u64()).unwrap_or(0) as u32, op.get("hid2").and_then(|v| v.as_u64()).unwrap_or(0) as u32);
            let r = crate::world::clone_handle(h1, h2);
            if w.alive() {
                w.observe();
            }
            r
        }
        "drop_handle" => {
            let r = crate::world::drop_handle(op.get("hid").and_then(|v| v.as_u64()).unwrap_or(0) as u32);
            if w.alive() {
                w.observe();
            }
            r
        }
        "upgrade_store" => {
            // upgrade the weak pointer h -> t; if the upgrade succeeds, p adopts the result
            let (h, t, p, path) = (s(op, "h").to_string(), s(op, "t").to_string(), s(op, "p").to_string(), s(op, "path").to_string());
            let mut ok = true;
            let okr = &mut ok;
            w.mutate("upgrade_store", move |st, mc, root| {
                let found = st.survey(mc, root, None);
                let Some(ts) = st.serial_of(&t) else { *okr = false; return };
                let Some((ps, pp)) = st.serial_of(&p).and_then(|x| found.get(&x).map(|q| (x, *q))) else {
                    *okr = false;
                    st.diverged = true;
                    return;
                };
                let wp = if h == "root" {
                    st.root_w.iter().position(|x| *x == ts).and_then(|i| root.weak.get(i).copied())
                } else {
                    st.serial_of(&h).and_then(|hs| {
                        let i = st.sh_weak.get(&hs)?.iter().position(|x| *x == ts)?;
                        let hp = found.get(&hs)?;
                        St::kids_of(*hp).1.get(i).copied()
                    })
                };
                let Some(wp) = wp else { *okr = false; st.diverged = true; return };
                match crate::ALLOC.block_containing(wp.addr()) {
                    Some(b) if !b.released => {
                        if let Some(c) = wp.upgrade(mc) {
                            ev!("{{\"ev\":\"upgraded\",\"a\":{},\"t\":{},\"some\":true}}", st.id, ts);
                            *okr = st.store(mc, ps, pp, ts, c, &path);
                        } else {
                            ev!("{{\"ev\":\"upgraded\",\"a\":{},\"t\":{},\"some\":false}}", st.id, ts);
                        }
                    }
                    _ => {}
                }
            }) && ok
        }
        "wcopy" => {
            // copy the weak pointer h -> t into p without upgrading it
            let (h, t, p, path) = (s(op, "h").to_string(), s(op, "t").to_string(), s(op, "p").to_string(), s(op, "path").to_string());
            let mut ok = true;
            let okr = &mut ok;
            w.mutate("wcopy", move |st, mc, root| {
                let found = st.survey(mc, root, None);
                let Some(ts) = st.serial_of(&t) else { *okr = false; return };
                let Some((ps, pp)) = st.serial_of(&p).and_then(|x| found.get(&x).map(|q| (x, *q))) else {
                    *okr = false;
                    st.diverged = true;
                    return;
                };
                let wp = if h == "root" {
                    st.root_w.iter().position(|x| *x == ts).and_then(|i| root.weak.get(i).copied())
                } else {
                    st.serial_of(&h).and_then(|hs| {
                        let i = st.sh_weak.get(&hs)?.iter().position(|x| *x == ts)?;
                        let hp = found.get(&hs)?;
                        St::kids_of(*hp).1.get(i).copied()
                    })
                };
                let Some(wp) = wp else { *okr = false; st.diverged = true; return };
                *okr = st.wstore_w(mc, ps, pp, ts, wp, &path);
            }) && ok
        }
        "link_many" => {
            let (p, c1, c2) = (s(op, "p").to_string(), s(op, "c1").to_string(), s(op, "c2").to_string());
            let mut ok = true;
            let okr = &mut ok;
            w.mutate("link_many", move |st, mc, root| {
                let found = st.survey(mc, root, None);
                let get = |st: &St, m: &str| st.serial_of(m).and_then(|x| found.get(&x).map(|q| (x, *q)));
                let (Some((ps, pp)), Some((s1, p1)), Some((s2, p2))) = (get(st, &p), get(st, &c1), get(st, &c2)) else {
                    *okr = false;
                    st.diverged = true;
                    return;
                };
                // one parent-only backward barrier, then two adoptions without further barriers
                *okr = st.store(mc, ps, pp, s1, p1, "back_none") && st.store(mc, ps, pp, s2, p2, "raw");
            }) && ok
        }
        "link_by_many" => {
            let (c, p1, p2) = (s(op, "c").to_string(), s(op, "p1").to_string(), s(op, "p2").to_string());
            let mut ok = true;
            let okr = &mut ok;
            w.mutate("link_by_many", move |st, mc, root| {
                let found = st.survey(mc, root, None);
                let get = |st: &St, m: &str| st.serial_of(m).and_then(|x| found.get(&x).map(|q| (x, *q)));
                let (Some((cs, cp)), Some((s1, q1)), Some((s2, q2))) = (get(st, &c), get(st, &p1), get(st, &p2)) else {
                    *okr = false;
                    st.diverged = true;
                    return;
                };
                // one child-only forward barrier, then adoption by two parents
                *okr = st.store(mc, s1, q1, cs, cp, "fwd_none") && st.store(mc, s2, q2, cs, cp, "raw");
            }) && ok
        }
        "root_add" | "root_remove" | "root_wadd" | "root_wremove" => {
            let target = if op.get("c").is_some() { s(op, "c") } else { s(op, "t") }.to_string();
            let via = Via::parse(s(op, "via"));
            let name = name.to_string();
            let mut ok = true;
            let okr = &mut ok;
            w.edit_root(via, move |st, mc, root| {
                let found = st.survey(mc, root, None);
                let Some(ts) = st.serial_of(&target) else { *okr = false; return };
                match name.as_str() {
                    "root_add" => {
                        let Some(p) = found.get(&ts).copied() else { *okr = false; st.diverged = true; return };
                        root.strong.push(p);
                        st.root_s.push(ts);
                        ev!("{{\"ev\":\"store\",\"a\":{},\"p\":0,\"c\":{},\"path\":\"{}\",\"effective\":true}}", st.id, ts, via.name());
                    }
                    "root_remove" => {
                        let Some(i) = st.root_s.iter().position(|x| *x == ts) else { *okr = false; return };
                        root.strong.remove(i);
                        st.root_s.remove(i);
                        ev!("{{\"ev\":\"remove\",\"a\":{},\"p\":0,\"c\":{},\"path\":\"{}\"}}", st.id, ts, via.name());
                    }
                    "root_wadd" => {
                        let Some(p) = found.get(&ts).copied() else { *okr = false; st.diverged = true; return };
                        root.weak.push(p.downgrade());
                        st.root_w.push(ts);
                        ev!("{{\"ev\":\"wstore\",\"a\":{},\"p\":0,\"t\":{},\"path\":\"{}\"}}", st.id, ts, via.name());
                    }
                    _ => {
                        let Some(i) = st.root_w.iter().position(|x| *x == ts) else { *okr = false; return };
                        root.weak.remove(i);
                        st.root_w.remove(i);
                        ev!("{{\"ev\":\"wremove\",\"a\":{},\"p\":0,\"t\":{},\"path\":\"{}\"}}", st.id, ts, via.name());
                    }
                }
            }) && ok
        }
        "call" => {
            let kind = s(op, "kind").to_string();
            let b = op.get("b").and_then(|v| v.as_u64()).unwrap_or(0) as u32;
            let g = s(op, "g").to_string();
            let cont = op.get("cont").and_then(|v| v.as_bool()).unwrap_or(false);
            if let Some(f) = op.get("fault") {
                let pos = f.get("pos").and_then(|v| v.as_u64()).unwrap_or(0) as u32;
                if let Some(at) = f.get("at").and_then(|v| v.as_u64()) {
                    crate::heap::arm_fault(at as u32, pos);
                }
                if let Some(dat) = f.get("dat").and_then(|v| v.as_u64()) {
                    crate::heap::arm_dfault(dat as u32);
                }
            }
            w.call(&kind, b, &g, cont, g == "real", None);
            w.observe();
            true
        }
        "adjust_debt" => {
            let x = op.get("xQ").and_then(|v| v.as_i64()).unwrap_or(0);
            w.adjust_debt(x);
            true
        }
        "start_sweeping" => {
            w.call("start_sweeping", 0, "P1", false, false, None);
            w.observe();
            true
        }
        "finalize" => {
            let t = s(op, "t");
            let fin = if t == "NoObj" || t.is_empty() { None } else { Some(FinOp::Resurrect(t.to_string())) };
            w.call("finalize", 0, "P1", false, false, fin);
            w.observe();
            true
        }
        "drop_arena" => {
            if let Some(dat) = op.get("dat").and_then(|v| v.as_u64()) {
                crate::heap::arm_dfault(dat as u32);
            }
            w.drop_arena();
            true
        }
        _ => {
            ev!("{{\"ev\":\"skip\",\"a\":{},\"why\":\"unknown op {}\"}}", w.st.id, name);
            false
        }
    }
}

/// The collector's internal state in the vocabulary of `Proj` in MC_GcHeap.tla.
pub fn snapshot(w: &World) -> Value {
    let Some(arena) = &w.arena else {
        return json!({"phase": "Dropped"});
    };
    let snap = arena.verif_snapshot();
    let name = |addr: usize| -> Value {
        match ALLOC.block_containing(addr) {
            Some(b) => match w.st.info.get(&b.tag) {
                Some(i) if w.st.by_model.get(&i.model) == Some(&b.tag) => json!(i.model),
                Some(i) => json!(format!("{}#old{}", i.model, b.tag)),
                None => json!(format!("?{}", b.tag)),
            },
            None => json!("?"),
        }
    };
    let opt = |a: Option<usize>| a.map(&name).unwrap_or(json!("NoObj"));
    let color = |c: u8| ["W", "WW", "G", "B"][c as usize & 3];
    let phase = ["Sleep", "Mark", "Sweep", "Dropped"][snap.phase as usize & 3];
    json!({
        "phase": phase,
        "obs": w.phase(),
        "rootNT": snap.root_needs_trace,
        "count": arena.metrics().total_gc_count(),
        "list": snap.all.iter().map(|(a, c, live, _nt)| json!({"o": name(*a), "c": color(*c), "live": live})).collect::<Vec<_>>(),
        "gray": snap.gray.iter().map(|a| name(*a)).collect::<Vec<_>>(),
        "grayAgain": snap.gray_again.iter().map(|a| name(*a)).collect::<Vec<_>>(),
        "sweep": opt(snap.sweep),
        "sweepPrev": opt(snap.sweep_prev),
    })
}

/// Compare with the model's `final` record; returns the names of differing fields.
pub fn diff_final(real: &Value, model: &Value) -> Vec<String> {
    let mut d = Vec::new();
    if model.get("obs").and_then(|v| v.as_str()) == Some("Dropped") {
        if real.get("phase").and_then(|v| v.as_str()) != Some("Dropped") {
            d.push("phase".to_string());
        }
        return d;
    }
    if model.get("phase").and_then(|v| v.as_str()) == Some("Dropped") {
        if real.get("phase").and_then(|v| v.as_str()) != Some("Dropped") {
            d.push("phase".to_string());
        }
        return d;
    }
    for k in ["phase", "obs", "rootNT", "count", "gray", "grayAgain", "sweep", "sweepPrev"] {
        if model.get(k).is_some() && real.get(k) != model.get(k) {
            d.push(k.to_string());
        }
    }
    if model.get("list").is_none() {
        return d;
    }
    let strip = |v: &Value| -> Vec<Value> {
        v.as_array()
            .map(|a| a.iter().map(|e| json!({"o": e.get("o"), "c": e.get("c"), "live": e.get("live")})).collect())
            .unwrap_or_default()
    };
    if strip(real.get("list").unwrap_or(&Value::Null)) != strip(model.get("list").unwrap_or(&Value::Null)) {
        d.push("list".to_string());
    }
    d
}

pub struct ReplayResult {
    pub debt_drift: Option<(usize, i64, i64)>, // first op whose debt/count differs from the model's: (op index, model, real)
    pub ops_done: usize,
    pub skipped: usize,
    pub diverged: bool,
    pub drift: Vec<String>,
    pub real_final: Value,
}

/// Replay one behaviour with the given epilogue ("c02": two finish_cycle calls, observe, drop;
/// "drop": drop the arena right where the behaviour ended).  Behaviours with `arenas: 2` run on
/// two arenas of the same thread; after every operation on one the OTHER is re-observed (C20).
pub fn replay(beh: &Value, beh_id: usize, epilogue: &str) -> ReplayResult {
    crate::world::clear_handles();
    ALLOC.reset();
    crate::world::AUX_SERIAL.store(100_000, std::sync::atomic::Ordering::Relaxed);
    ev!("{{\"ev\":\"reset\",\"beh\":{},\"epilogue\":\"{}\"}}", beh_id, epilogue);
    let n_arenas = beh.get("arenas").and_then(|v| v.as_u64()).unwrap_or(1) as usize;
    // Two arenas, "drop" variant: the allocator hands a released block out again at once (as a real one would),
    // so that one arena gets the addresses the other gave back; otherwise released blocks stay quarantined.
    ALLOC.set_reuse(n_arenas == 2 && epilogue == "drop");
    let mut ws: Vec<World> = (0..n_arenas).map(|i| World::new(i as u32, 1 + 10_000 * i as u32)).collect();
    let mut skipped = 0;
    let mut debt_drift = None;
    if let Some(p) = beh.get("pacing") {
        let q = |k: &str| p.get(k).and_then(|v| v.as_i64()).unwrap_or(0);
        ws[0].set_pacing_q(q("sf"), q("ms"), q("mf"), q("tf"), q("kf"), q("df"), q("ff"));
    }
    if n_arenas == 2 {
        // different pacing per arena
        ws[1].set_pacing_q(16, 1, 0, 0, 0, 0, 0);
    }
    let ops = beh.get("ops").and_then(|v| v.as_array()).cloned().unwrap_or_default();
    let big_debt = epilogue == "drop" && beh.get("pacing").is_none();
    for (k, op) in ops.iter().enumerate() {
        let a = op.get("a").and_then(|v| v.as_u64()).unwrap_or(0) as usize;
        // C03: callbacks must not reclaim anything whatever the outstanding debt.  In the "drop" variant
        // every mutator callback is entered with a debt far above anything the heap could justify.
        let opname = s(op, "op");
        if big_debt && !matches!(opname, "call" | "start_sweeping" | "finalize" | "drop_arena" | "clone_handle" | "drop_handle")
            && ws[a].alive() && ws[a].metrics.total_gc_count() > 0
        {
            ws[a].adjust_debt(16_000_000);
        }
        if !exec(&mut ws[a], op) {
            skipped += 1;
        }
        if n_arenas == 2 && ws[1 - a].alive() {
            ws[1 - a].observe();
        }
        // pacing configurations: the model predicts the debt (x16) and the count after every operation
        if let (Some(d), Some(n)) = (op.get("d").and_then(|v| v.as_i64()), op.get("n").and_then(|v| v.as_i64())) {
            let w = &ws[a];
            if debt_drift.is_none() && w.alive() {
                let (rd, rn) = (w.debt_q_pub(), w.metrics.total_gc_count() as i64);
                if rd != d {
                    debt_drift = Some((k, d, rd));
                } else if rn != n {
                    debt_drift = Some((k, n, rn));
                }
            }
        }
    }
    let real_final = if n_arenas == 1 { snapshot(&ws[0]) } else { Value::Array(ws.iter().map(snapshot).collect()) };
    let drift = match beh.get("final") {
        Some(Value::Array(ms)) => {
            let mut d = Vec::new();
            for (i, m) in ms.iter().enumerate() {
                for f in diff_final(&real_final[i], m) {
                    d.push(format!("{i}.{f}"));
                }
            }
            d
        }
        Some(m) => diff_final(&real_final, m),
        None => vec![],
    };
    for w in ws.iter_mut() {
        if epilogue == "c02" && w.alive() {
            // (a collection that cannot finish -- a reachable RefLock frozen by a leaked RefMut makes
            // every trace panic -- promises nothing about what is left)
            let done = w.call("finish_cycle", 0, "P1", false, false, None) & w.call("finish_cycle", 0, "P1", false, false, None);
            w.observe();
            if !done {
                continue;
            }
            ev!("{{\"ev\":\"c02_check\",\"a\":{},\"count\":{},\"phase\":\"{}\"}}", w.st.id, w.metrics.total_gc_count(), w.phase());
        }
    }
    // arena 1 first: dropping one arena while the other still lives
    for w in ws.iter_mut().rev() {
        w.drop_arena();
    }
    // handles that outlived their arena are dropped now: must be harmless
    let left: Vec<u32> = crate::world::HANDLES.with(|hs| hs.borrow().keys().copied().collect());
    for hid in left {
        crate::world::drop_handle(hid);
    }
    ev!("{{\"ev\":\"end\",\"beh\":{},\"outstanding\":{},\"overflow\":{}}}", beh_id, ALLOC.outstanding(), ALLOC.overflowed());
    let diverged = ws.iter().any(|w| w.st.diverged);
    ReplayResult { debt_drift, ops_done: ops.len(), skipped, diverged, drift, real_final }
}
