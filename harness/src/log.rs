//! The observation trace: one ndjson object per line, in program order (single thread, so
//! program order is the only order).  The harness records; it does not judge.

use std::cell::RefCell;
use std::fmt::Write as _;

thread_local! {
    static LINES: RefCell<String> = RefCell::new(String::with_capacity(1 << 20));
    static COUNT: RefCell<usize> = const { RefCell::new(0) };
}

pub fn raw(line: &str) {
    LINES.with(|l| {
        let mut l = l.borrow_mut();
        l.push_str(line);
        l.push('\n');
    });
    COUNT.with(|c| *c.borrow_mut() += 1);
}

pub fn ev(args: std::fmt::Arguments<'_>) {
    LINES.with(|l| {
        let mut l = l.borrow_mut();
        let _ = l.write_fmt(args);
        l.push('\n');
    });
    COUNT.with(|c| *c.borrow_mut() += 1);
}

#[macro_export]
macro_rules! ev {
    ($($arg:tt)*) => { $crate::log::ev(format_args!($($arg)*)) };
}

/// Emitted by the destructor of every harness value that has one.
pub fn destruct(serial: u32, panics: bool) {
    // try_borrow: a destructor may run while the log is borrowed only through a harness bug
    ev(format_args!("{{\"ev\":\"destruct\",\"o\":{serial},\"panics\":{panics}}}"));
}

pub fn take() -> String {
    LINES.with(|l| std::mem::take(&mut *l.borrow_mut()))
}

pub fn count() -> usize {
    COUNT.with(|c| *c.borrow())
}

pub fn len_bytes() -> usize {
    LINES.with(|l| l.borrow().len())
}
