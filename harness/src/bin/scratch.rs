use gc_arena::{Arena, Gc, RefLock, Rootable, metrics::Pacing, arena::CollectionPhase};
fn main() {
    let which = std::env::args().nth(1).unwrap_or_default();
    if which == "f1" {
        let mut arena = Arena::<Rootable![Gc<'_, RefLock<i32>>]>::new(|mc| Gc::new(mc, RefLock::new(1)));
        arena.finish_marking();
        let r = std::panic::catch_unwind(std::panic::AssertUnwindSafe(|| {
            arena.mutate(|mc, root| { *root.borrow_mut(mc) = 2; });
        }));
        println!("f1 panicked={} debt={}", r.is_err(), arena.metrics().allocation_debt());
    }
    if which == "f6" {
        let mut arena = Arena::<Rootable![()]>::new(|_mc| ());
        arena.metrics().set_pacing(Pacing { min_sleep: 0, sleep_factor: 0.0, ..Pacing::STOP_THE_WORLD });
        arena.mutate(|mc, _| { for i in 0..5 { Gc::new(mc, i); } });
        println!("debt before={} phase={:?}", arena.metrics().allocation_debt(), arena.collection_phase());
        arena.collect_debt();
        println!("f6 after collect_debt: phase={:?} count={} debt={}", arena.collection_phase(), arena.metrics().total_gc_count(), arena.metrics().allocation_debt());
        assert_ne!(arena.collection_phase(), CollectionPhase::Sweeping, "F6");
    }
}
