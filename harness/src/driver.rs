//! Seeded random driver (implementation -> specification direction): bigger heaps, natural
//! pacing, bursts of allocation between collection calls, mixed strong / weak / garbage
//! workloads.  It records; the TLA+ monitor judges.

use rand::rngs::StdRng;
use rand::{RngExt, SeedableRng};

use crate::ALLOC;
use crate::ev;
use crate::world::*;

pub struct Params {
    pub steps: usize,
    pub max_objs: usize,
}

const PATHS_N: [&str; 8] =
    ["borrow_mut", "try_borrow_mut", "write_unlock", "gc_unlock", "back_none", "back_some", "fwd_some", "fwd_none"];
const WPATHS_N: [&str; 6] = ["borrow_mut", "write_unlock", "back_none", "back_weak", "fwd_weak_some", "fwd_weak_none"];

/// (sf, ms, mf, tf, kf, df, ff) in 16ths
fn pick_pacing(rng: &mut StdRng) -> (i64, i64, i64, i64, i64, i64, i64) {
    match rng.random_range(0..6) {
        0 => (16, rng.random_range(0..4), 0, 0, 0, 0, 0),               // stop the world
        1 => (8, rng.random_range(0..8), 2, 6, 1, 3, 5),                 // default-like
        2 => (rng.random_range(0..24), rng.random_range(0..3), 5, 9, 1, 8, 7), // near the limit: rho = 15/16
        3 => (0, 0, 1, 2, 1, 1, 2),                                      // always running, fast
        _ => {
            // random dyadic pacing with every path sum < 16
            loop {
                let (mf, tf, kf, df, ff) = (
                    rng.random_range(0..8),
                    rng.random_range(0..10),
                    rng.random_range(0..6),
                    rng.random_range(0..10),
                    rng.random_range(0..10),
                );
                if mf + tf + kf < 16 && df + ff < 16 && mf + df + kf < 16 {
                    return (rng.random_range(0..32), rng.random_range(0..6), mf, tf, kf, df, ff);
                }
            }
        }
    }
}

/// Adversarial workloads for the completion bound of C09: every allocation is sent down ONE route of
/// the per-object work (mark + trace + keep; weakly marked first, then strongly; born garbage: drop +
/// free; weakly held garbage: mark + drop + keep) under a pacing that prices exactly that route at
/// rho = 15/16, starting from a tiny heap.  Any unit of work that is credited more than its factor on
/// that route pushes the cycle past rho * H / (1 - rho) allocations.
fn run_tight(rng: &mut StdRng, run_id: usize, p: &Params) {
    ev!("{{\"ev\":\"reset\",\"beh\":{},\"epilogue\":\"random\"}}", run_id);
    let mut w = World::new(0, 1);
    w.st.quiet_survey = true;
    let route = rng.random_range(0..5);
    let sf = [0i64, 0, 4, 16][rng.random_range(0..4)];
    let (mf, tf, kf, df, ff) = match route {
        0 => (5, 5, 5, 1, 1),
        1 => (13, 1, 1, 1, 1),
        2 => (1, 1, 1, 7, 8),
        3 => (7, 1, 1, 7, 1),
        // route 4 (the sleep promise after INCREMENTAL cycles): reclaiming one garbage object pays for two
        // allocations, so the call that finishes a cycle usually begins with a debt that its observed destructs and
        // releases alone pay for; survivors come and go, so consecutive cycles have different wake-up amounts
        _ => (1, 1, 1, 16, 16),
    };
    let (sf, ms) = if route == 4 { ([8i64, 16, 24][rng.random_range(0..3)], rng.random_range(0..3)) } else { (sf, 0) };
    w.set_pacing_q(sf, ms, mf, tf, kf, df, ff);
    let mut n = 0usize; // chain length
    let mut g = 0usize; // garbage / shell counter
    for _step in 0..p.steps {
        if !w.alive() {
            break;
        }
        let burst = if rng.random_range(0..4) == 0 { rng.random_range(2..4) } else { 1 };
        for _ in 0..burst {
            let (k, gi) = (n, g);
            match route {
                0 | 1 => {
                    n += 1;
                    w.edit_root(Via::MutateRoot, move |st, mc, root| {
                        let found = st.survey(mc, root, None);
                        let name = format!("x{k}");
                        let c = st.alloc(mc, Kind::N, &name);
                        let cs = st.serial_of(&name).unwrap();
                        if k == 0 {
                            root.strong.push(c);
                            st.root_s.push(cs);
                            ev!("{{\"ev\":\"store\",\"a\":{},\"p\":0,\"c\":{},\"path\":\"mutate_root\",\"effective\":true}}", st.id, cs);
                            return;
                        }
                        // the strong holder is re-grayed first, the weak holder last: the weak holder is
                        // traced first (the queues are stacks)
                        let ps = st.serial_of(&format!("x{}", k - 1)).unwrap();
                        if let Some(&pp) = found.get(&ps) {
                            st.store(mc, ps, pp, cs, c, "borrow_mut");
                        }
                        if route == 1 && k >= 2 {
                            let hs = st.serial_of(&format!("x{}", k - 2)).unwrap();
                            if let Some(&hp) = found.get(&hs) {
                                st.wstore(mc, hs, hp, cs, c, "borrow_mut");
                            }
                        }
                    });
                }
                2 => {
                    g += 1;
                    w.mutate("garbage", move |st, mc, _root| {
                        st.alloc(mc, Kind::N, &format!("g{gi}"));
                    });
                }
                4 => {
                    g += 1;
                    let keep = rng.random_range(0..3) == 0;
                    let shed = rng.random_range(0..12) == 0;
                    w.edit_root(Via::MutateRoot, move |st, mc, root| {
                        st.survey(mc, root, None);
                        let name = format!("m{gi}");
                        let c = st.alloc(mc, Kind::N, &name);
                        let cs = st.serial_of(&name).unwrap();
                        if keep && root.strong.len() < 48 {
                            root.strong.push(c);
                            st.root_s.push(cs);
                            ev!("{{\"ev\":\"store\",\"a\":{},\"p\":0,\"c\":{},\"path\":\"mutate_root\",\"effective\":true}}", st.id, cs);
                        }
                        if shed {
                            // drop most of the survivors at once
                            while st.root_s.len() > 2 {
                                let c = st.root_s.remove(0);
                                root.strong.remove(0);
                                ev!("{{\"ev\":\"remove\",\"a\":{},\"p\":0,\"c\":{},\"path\":\"mutate_root\"}}", st.id, c);
                            }
                        }
                    });
                }
                _ => {
                    g += 1;
                    let cap = p.max_objs;
                    w.edit_root(Via::MutateRoot, move |st, mc, root| {
                        st.survey(mc, root, None);
                        let name = format!("s{gi}");
                        let c = st.alloc(mc, Kind::N, &name);
                        let cs = st.serial_of(&name).unwrap();
                        if root.weak.len() >= cap {
                            let t = st.root_w.remove(0);
                            root.weak.remove(0);
                            ev!("{{\"ev\":\"wremove\",\"a\":{},\"p\":0,\"t\":{},\"path\":\"mutate_root\"}}", st.id, t);
                        }
                        root.weak.push(c.downgrade());
                        st.root_w.push(cs);
                        ev!("{{\"ev\":\"wstore\",\"a\":{},\"p\":0,\"t\":{},\"path\":\"mutate_root\"}}", st.id, cs);
                    });
                }
            }
        }
        w.call("cycle_debt", 0, "real", false, true, None);
        if rng.random_range(0..16) == 0 {
            w.observe();
        }
    }
    if w.alive() {
        w.call("finish_cycle", 0, "real", false, true, None);
        w.call("finish_cycle", 0, "real", false, true, None);
        w.observe();
        ev!("{{\"ev\":\"c02_check\",\"a\":0,\"count\":{},\"phase\":\"{}\"}}", w.metrics.total_gc_count(), w.phase());
    }
    w.drop_arena();
    ev!("{{\"ev\":\"end\",\"beh\":{},\"outstanding\":{},\"overflow\":{}}}", run_id, ALLOC.outstanding(), ALLOC.overflowed());
}

pub fn run(seed: u64, run_id: usize, p: &Params) {
    ALLOC.reset();
    let mut rng = StdRng::seed_from_u64(seed.wrapping_mul(1_000_003).wrapping_add(run_id as u64));
    if run_id % 4 == 3 {
        return run_tight(&mut rng, run_id, p);
    }
    ev!("{{\"ev\":\"reset\",\"beh\":{},\"epilogue\":\"random\"}}", run_id);
    let mut w = World::new(0, 1);
    w.st.quiet_survey = true;
    let pq = pick_pacing(&mut rng);
    w.set_pacing_q(pq.0, pq.1, pq.2, pq.3, pq.4, pq.5, pq.6);
    let mut next_model = 0usize;
    let workload = rng.random_range(0..4); // 0 all survive, 1 all garbage, 2 shells, 3 mixed
    for _step in 0..p.steps {
        if !w.alive() {
            break;
        }
        let roll = rng.random_range(0..100);
        if roll < 45 {
            // a burst of allocations in one callback
            let burst = match rng.random_range(0..10) {
                0 => rng.random_range(8..40),
                _ => rng.random_range(1..6),
            };
            let seeds: Vec<u64> = (0..burst).map(|_| rng.random()).collect();
            let base = next_model;
            next_model += burst;
            let cap = p.max_objs;
            w.edit_root(Via::MutateRoot, move |st, mc, root| {
                let found = st.survey(mc, root, None);
                let mut keys: Vec<u32> = found.keys().copied().collect();
                keys.sort();
                for (i, s) in seeds.iter().enumerate() {
                    let kind = if s % 7 == 0 { Kind::S } else { Kind::N };
                    let name = format!("r{}", base + i);
                    let c = st.alloc(mc, kind, &name);
                    let cs = st.serial_of(&name).unwrap();
                    let mode = match workload {
                        0 => 0,
                        1 => 2,
                        _ => (s >> 8) % 3,
                    };
                    if mode == 0 && root.strong.len() < cap {
                        root.strong.push(c);
                        st.root_s.push(cs);
                        ev!("{{\"ev\":\"store\",\"a\":{},\"p\":0,\"c\":{},\"path\":\"mutate_root\",\"effective\":true}}", st.id, cs);
                    } else if mode == 1 && !keys.is_empty() {
                        // hang it under an accessible node that has room
                        let ps = keys[(s >> 16) as usize % keys.len()];
                        let room = st.sh_strong.get(&ps).map(|v| v.len() < crate::heap::MAXK).unwrap_or(false);
                        if room && matches!(found[&ps], crate::heap::Ptr::N(_)) {
                            let path = PATHS_N[(s >> 24) as usize % PATHS_N.len()];
                            st.store(mc, ps, found[&ps], cs, c, path);
                        }
                    }
                    // mode 2: garbage at birth
                    if workload >= 2 && s % 5 == 0 && root.weak.len() < cap {
                        root.weak.push(c.downgrade());
                        st.root_w.push(cs);
                        ev!("{{\"ev\":\"wstore\",\"a\":{},\"p\":0,\"t\":{},\"path\":\"mutate_root\"}}", st.id, cs);
                    }
                }
            });
        } else if roll < 60 {
            // graph edits among accessible objects
            let s: u64 = rng.random();
            w.mutate("edit", move |st, mc, root| {
                let found = st.survey(mc, root, None);
                let mut keys: Vec<u32> = found.keys().copied().collect();
                keys.sort();
                if keys.is_empty() {
                    return;
                }
                let ps = keys[s as usize % keys.len()];
                let cs = keys[(s >> 12) as usize % keys.len()];
                let (pp, cp) = (found[&ps], found[&cs]);
                if !matches!(pp, crate::heap::Ptr::N(_)) {
                    return;
                }
                match (s >> 24) % 5 {
                    0 | 1 => {
                        let room = st.sh_strong.get(&ps).map(|v| v.len() < crate::heap::MAXK && !v.contains(&cs)).unwrap_or(false);
                        if room {
                            st.store(mc, ps, pp, cs, cp, PATHS_N[(s >> 32) as usize % PATHS_N.len()]);
                        }
                    }
                    2 => {
                        if let Some(&c) = st.sh_strong.get(&ps).and_then(|v| v.first()) {
                            st.remove(mc, ps, pp, c, if s >> 40 & 1 == 0 { "borrow_mut" } else { "raw" });
                        }
                    }
                    3 => {
                        let room = st.sh_weak.get(&ps).map(|v| v.len() < crate::heap::MAXW && !v.contains(&cs)).unwrap_or(false);
                        if room {
                            st.wstore(mc, ps, pp, cs, cp, WPATHS_N[(s >> 32) as usize % WPATHS_N.len()]);
                        }
                    }
                    _ => {
                        if let Some(&t) = st.sh_weak.get(&ps).and_then(|v| v.first()) {
                            st.wremove(mc, ps, pp, t, "borrow_mut");
                        }
                    }
                }
            });
        } else if roll < 68 {
            // unroot something
            let s: u64 = rng.random();
            w.edit_root(Via::MutateRoot, move |st, mc, root| {
                st.survey(mc, root, None);
                if s & 1 == 0 && !st.root_s.is_empty() {
                    let n = 1 + (s >> 8) as usize % st.root_s.len().min(8);
                    for _ in 0..n {
                        let i = (s >> 20) as usize % st.root_s.len();
                        let c = st.root_s.remove(i);
                        root.strong.remove(i);
                        ev!("{{\"ev\":\"remove\",\"a\":{},\"p\":0,\"c\":{},\"path\":\"mutate_root\"}}", st.id, c);
                    }
                } else if !st.root_w.is_empty() {
                    let i = (s >> 20) as usize % st.root_w.len();
                    let t = st.root_w.remove(i);
                    root.weak.remove(i);
                    ev!("{{\"ev\":\"wremove\",\"a\":{},\"p\":0,\"t\":{},\"path\":\"mutate_root\"}}", st.id, t);
                }
            });
        } else if roll < 72 {
            let x = [16i64, 48, 8, 160, -16, -8][rng.random_range(0..6)];
            w.adjust_debt(x);
            w.snap();
        } else if roll < 74 {
            // a new pacing in the middle of whatever the collector is doing
            let pq = pick_pacing(&mut rng);
            w.set_pacing_q(pq.0, pq.1, pq.2, pq.3, pq.4, pq.5, pq.6);
            w.snap();
        } else {
            let kind = match rng.random_range(0..16) {
                0..=5 => "collect_debt",
                6..=10 => "cycle_debt",
                11 | 12 => "mark_debt",
                13 => "finish_marking",
                14 => "finish_cycle",
                _ => "start_sweeping",
            };
            w.call(kind, 0, "real", false, true, None);
            w.snap();
            if rng.random_range(0..4) == 0 {
                w.observe();
            }
        }
    }
    if w.alive() {
        w.call("finish_cycle", 0, "real", false, true, None);
        w.call("finish_cycle", 0, "real", false, true, None);
        w.observe();
        ev!("{{\"ev\":\"c02_check\",\"a\":0,\"count\":{},\"phase\":\"{}\"}}", w.metrics.total_gc_count(), w.phase());
    }
    w.drop_arena();
    ev!("{{\"ev\":\"end\",\"beh\":{},\"outstanding\":{},\"overflow\":{}}}", run_id, ALLOC.outstanding(), ALLOC.overflowed());
}
