//! Tracking, quarantining global allocator.
//!
//! The harness arms the allocator just before it asks gc-arena for an allocation
//! (`arm(tag)`); the next `alloc` call is then recorded as the GC block with that tag.
//! Tracked blocks are surrounded by guard bytes and are never handed back to the system
//! while a behaviour runs (quarantine), so that a use-after-free or double free in the
//! crate under test is *data* (a logged event) instead of heap corruption in the harness.
//! Everything else goes straight to `System`.

use std::alloc::{GlobalAlloc, Layout, System};
use std::cell::UnsafeCell;

const CAP: usize = 1 << 16;
const HCAP: usize = 1 << 18;
const GUARD: u8 = 0xA5;

#[derive(Copy, Clone)]
pub struct Block {
    pub user: usize,
    pub base: usize,
    pub pad: usize,
    pub size: usize,
    pub align: usize,
    pub tag: u32,
    pub released: bool,
    /// the memory was handed out again (reuse mode): a newer entry owns it
    pub recycled: bool,
}

#[derive(Copy, Clone, Debug)]
pub struct Release {
    pub tag: u32,
    pub req: (usize, usize),
    pub rel: (usize, usize),
    pub double: bool,
    pub guard_ok: bool,
}

struct State {
    armed: Option<u32>,
    skip: u32,
    // reuse mode: a released block of the same layout is handed out again at once (newest first), as a real
    // allocator would, so that address reuse between arenas is exercised; quarantine otherwise
    reuse: bool,
    blocks: [Block; CAP],
    nblocks: usize,
    // open-addressing hash from user address to block index + 1
    index: [u32; HCAP],
    releases: [Release; 4096],
    nreleases: usize,
    overflow: bool,
    // allocations of unknown origin seen while `count_untracked` is on (C18: builder blocks)
    count_untracked: bool,
    untracked_allocs: usize,
    untracked_frees: usize,
    last_untracked: (usize, usize, usize),
}

pub struct Tracking {
    st: UnsafeCell<State>,
}

// The harness is single-threaded; the test runner never uses this allocator concurrently.
unsafe impl Sync for Tracking {}

const EMPTY_BLOCK: Block = Block { user: 0, base: 0, pad: 0, size: 0, align: 0, tag: 0, released: false, recycled: false };
const EMPTY_REL: Release = Release { tag: 0, req: (0, 0), rel: (0, 0), double: false, guard_ok: true };

impl Tracking {
    pub const fn new() -> Self {
        Tracking {
            st: UnsafeCell::new(State {
                armed: None,
                skip: 0,
                reuse: false,
                blocks: [EMPTY_BLOCK; CAP],
                nblocks: 0,
                index: [0; HCAP],
                releases: [EMPTY_REL; 4096],
                nreleases: 0,
                overflow: false,
                count_untracked: false,
                untracked_allocs: 0,
                untracked_frees: 0,
                last_untracked: (0, 0, 0),
            }),
        }
    }

    #[allow(clippy::mut_from_ref)]
    fn st(&self) -> &mut State {
        unsafe { &mut *self.st.get() }
    }

    /// The next allocation is a GC block with this tag.
    pub fn arm(&self, tag: u32) {
        let st = self.st();
        st.armed = Some(tag);
        st.skip = 0;
    }

    /// The allocation after the next `skip` allocations is a GC block with this tag.
    pub fn arm_skip(&self, tag: u32, skip: u32) {
        let st = self.st();
        st.armed = Some(tag);
        st.skip = skip;
    }

    pub fn set_reuse(&self, on: bool) {
        self.st().reuse = on;
    }

    pub fn disarm(&self) -> bool {
        self.st().armed.take().is_some()
    }

    fn slot(addr: usize) -> usize {
        ((addr >> 3).wrapping_mul(0x9E37_79B9_7F4A_7C15) >> 40) & (HCAP - 1)
    }

    // An address can only be tracked once per behaviour (quarantine), so the hash is a map.
    fn find(&self, user: usize) -> Option<usize> {
        let st = self.st();
        if st.nblocks == 0 {
            return None;
        }
        let mut h = Self::slot(user);
        loop {
            let e = st.index[h];
            if e == 0 {
                return None;
            }
            if st.blocks[(e - 1) as usize].user == user {
                return Some((e - 1) as usize);
            }
            h = (h + 1) & (HCAP - 1);
        }
    }

    fn index_insert(&self, user: usize, i: usize) {
        let st = self.st();
        let mut h = Self::slot(user);
        while st.index[h] != 0 {
            h = (h + 1) & (HCAP - 1);
        }
        st.index[h] = (i + 1) as u32;
    }

    /// The tracked block whose user region contains `addr`.
    pub fn block_containing(&self, addr: usize) -> Option<Block> {
        let st = self.st();
        (0..st.nblocks)
            .rev()
            .map(|i| st.blocks[i])
            .find(|b| addr >= b.user && addr < b.user + b.size.max(1))
    }

    pub fn block_by_tag(&self, tag: u32) -> Option<Block> {
        let st = self.st();
        (0..st.nblocks).rev().map(|i| st.blocks[i]).find(|b| b.tag == tag)
    }

    pub fn outstanding(&self) -> usize {
        let st = self.st();
        (0..st.nblocks).filter(|&i| !st.blocks[i].released).count()
    }

    pub fn guards_ok(&self, b: &Block) -> bool {
        unsafe {
            let pre = std::slice::from_raw_parts(b.base as *const u8, b.pad);
            let post = std::slice::from_raw_parts((b.user + b.size) as *const u8, b.pad);
            pre.iter().all(|&x| x == GUARD) && post.iter().all(|&x| x == GUARD)
        }
    }

    pub fn drain_releases(&self) -> Vec<Release> {
        let st = self.st();
        let v = st.releases[..st.nreleases].to_vec();
        st.nreleases = 0;
        v
    }

    pub fn overflowed(&self) -> bool {
        self.st().overflow
    }

    pub fn count_untracked(&self, on: bool) {
        let st = self.st();
        st.count_untracked = on;
        st.untracked_allocs = 0;
        st.untracked_frees = 0;
    }

    pub fn untracked_counts(&self) -> (usize, usize) {
        let st = self.st();
        (st.untracked_allocs, st.untracked_frees)
    }

    /// End of a behaviour: really free the quarantined blocks and forget everything.
    pub fn reset(&self) {
        let st = self.st();
        for i in 0..st.nblocks {
            let b = st.blocks[i];
            if b.recycled {
                continue; // the newer entry frees the memory
            }
            unsafe {
                System.dealloc(
                    b.base as *mut u8,
                    Layout::from_size_align_unchecked(b.size + 2 * b.pad, b.align),
                );
            }
        }
        for i in 0..st.nblocks {
            // clear only the slots that can be occupied
            let mut h = Self::slot(st.blocks[i].user);
            while st.index[h] != 0 {
                st.index[h] = 0;
                h = (h + 1) & (HCAP - 1);
            }
        }
        st.nblocks = 0;
        st.nreleases = 0;
        st.armed = None;
        st.overflow = false;
    }
}

unsafe impl GlobalAlloc for Tracking {
    unsafe fn alloc(&self, layout: Layout) -> *mut u8 {
        let st = self.st();
        if st.armed.is_some() && st.skip > 0 {
            st.skip -= 1;
            return unsafe { System.alloc(layout) };
        }
        if let Some(tag) = st.armed.take() {
            if st.nblocks >= CAP {
                st.overflow = true;
                return unsafe { System.alloc(layout) };
            }
            if st.reuse {
                let hit = (0..st.nblocks).rev().find(|&i| {
                    let b = &st.blocks[i];
                    b.released && !b.recycled && b.size == layout.size() && b.align == layout.align()
                });
                if let Some(i) = hit {
                    let old = st.blocks[i];
                    st.blocks[i].recycled = true;
                    st.blocks[st.nblocks] = Block { tag, released: false, recycled: false, ..old };
                    st.nblocks += 1;
                    // the address now names the new entry
                    let mut h = Self::slot(old.user);
                    while st.index[h] != (i + 1) as u32 {
                        h = (h + 1) & (HCAP - 1);
                    }
                    st.index[h] = st.nblocks as u32;
                    return old.user as *mut u8;
                }
            }
            let pad = layout.align().max(32);
            let total = layout.size() + 2 * pad;
            let base = unsafe { System.alloc(Layout::from_size_align_unchecked(total, layout.align())) };
            if base.is_null() {
                return base;
            }
            unsafe {
                std::ptr::write_bytes(base, GUARD, pad);
                std::ptr::write_bytes(base.add(pad + layout.size()), GUARD, pad);
            }
            let user = unsafe { base.add(pad) };
            st.blocks[st.nblocks] = Block {
                user: user as usize,
                base: base as usize,
                pad,
                size: layout.size(),
                align: layout.align(),
                tag,
                released: false,
                recycled: false,
            };
            st.nblocks += 1;
            self.index_insert(user as usize, st.nblocks - 1);
            user
        } else {
            if st.count_untracked {
                st.untracked_allocs += 1;
            }
            unsafe { System.alloc(layout) }
        }
    }

    unsafe fn dealloc(&self, ptr: *mut u8, layout: Layout) {
        if let Some(i) = self.find(ptr as usize) {
            let st = self.st();
            let b = st.blocks[i];
            let guard_ok = self.guards_ok(&b);
            if st.nreleases < st.releases.len() {
                st.releases[st.nreleases] = Release {
                    tag: b.tag,
                    req: (b.size, b.align),
                    rel: (layout.size(), layout.align()),
                    double: b.released,
                    guard_ok,
                };
                st.nreleases += 1;
            } else {
                st.overflow = true;
            }
            st.blocks[i].released = true;
            // quarantined: the memory stays mapped and intact until `reset`
        } else {
            let st = self.st();
            if st.count_untracked {
                st.untracked_frees += 1;
            }
            unsafe { System.dealloc(ptr, layout) }
        }
    }
}
