//! The heap vocabulary of the harness: one Rust type per model object kind, covering every
//! sanctioned storage path of gc-arena (C06).
//!
//!   N  `Gc<RefLock<Node>>`        ordered strong children + weak children
//!   S  `Gc<RefLock<Leaf>>`        `NEEDS_TRACE = false`, no children (still barrier-able)
//!   L  `Gc<Lock<LockVal>>`        one strong + one weak child, `Gc<Lock<T>>::set`
//!   O  `Gc<OnceLock<OnceVal>>`    one strong child, set once
//!   F  `Gc<FieldBox>`             struct with a `RefLock` field, written through
//!                                 `Gc::write` + `field!`/`unlock!`
//!
//! Values own no heap memory (inline arrays only), so that a destructor run twice by a broken
//! collector is logged data, not a double free inside the harness.

use std::cell::Cell;

use gc_arena::{
    Collect, DynamicRootSet, Gc, GcWeak, Lock, RefLock,
    collect::Trace,
    lock::OnceLock,
};

use crate::log;

pub const MAXK: usize = 4;
pub const MAXW: usize = 3;

pub const ST_LIVE: u8 = 0x5A;
pub const ST_DEAD: u8 = 0xDE;

pub fn canary_of(serial: u32) -> u32 {
    serial.wrapping_mul(0x9E37_79B1) ^ 0xC0FF_EE00
}

// ------------------------------------------------------------------ fault injection (C11)
thread_local! {
    // (countdown until the faulting trace call, children to trace before unwinding)
    static FAULT: Cell<Option<(u32, u32)>> = const { Cell::new(None) };
    static TRACE_CALLS: Cell<u32> = const { Cell::new(0) };
    // countdown until the destructor (of a harness value) that panics
    static DFAULT: Cell<Option<u32>> = const { Cell::new(None) };
}

pub fn arm_dfault(at: u32) {
    DFAULT.with(|f| f.set(Some(at)));
}
pub fn disarm_dfault() -> bool {
    DFAULT.with(|f| f.take().is_some())
}
/// Called by every destructor of a harness value: is this the one that panics?
fn dtor_tick() -> bool {
    DFAULT.with(|f| match f.get() {
        Some(0) => {
            f.set(None);
            true
        }
        Some(n) => {
            f.set(Some(n - 1));
            false
        }
        None => false,
    })
}

pub fn arm_fault(at: u32, pos: u32) {
    FAULT.with(|f| f.set(Some((at, pos))));
}
pub fn disarm_fault() -> bool {
    FAULT.with(|f| f.take().is_some())
}
pub fn reset_trace_calls() {
    TRACE_CALLS.with(|c| c.set(0));
}
pub fn trace_calls() -> u32 {
    TRACE_CALLS.with(|c| c.get())
}

/// Called at the start of every `Collect::trace` of a harness value.  Returns `Some(j)` if
/// this trace call has to unwind after tracing `j` children.
fn tick() -> Option<u32> {
    TRACE_CALLS.with(|c| c.set(c.get() + 1));
    FAULT.with(|f| match f.get() {
        Some((0, pos)) => {
            f.set(None);
            Some(pos)
        }
        Some((n, pos)) => {
            f.set(Some((n - 1, pos)));
            None
        }
        None => None,
    })
}

pub struct InjectedFault;

pub const ALLPOS: u32 = 99;

fn unwind() -> ! {
    std::panic::resume_unwind(Box::new(InjectedFault))
}

/// fault position j < ALLPOS: unwind after j strong pointers were reported
fn maybe_unwind(limit: Option<u32>, traced: u32) {
    if let Some(j) = limit {
        if j != ALLPOS && traced >= j {
            unwind();
        }
    }
}

/// all strong pointers were reported: any position short of ALLPOS unwinds now
fn strong_done(limit: Option<u32>) {
    if let Some(j) = limit {
        if j != ALLPOS {
            unwind();
        }
    }
}

/// everything was reported
fn all_done(limit: Option<u32>) {
    if limit.is_some() {
        unwind();
    }
}

// ------------------------------------------------------------------ pointers
#[derive(Copy, Clone)]
pub enum Ptr<'gc> {
    N(Gc<'gc, RefLock<Node<'gc>>>),
    S(Gc<'gc, RefLock<Leaf>>),
    L(Gc<'gc, Lock<LockVal<'gc>>>),
    O(Gc<'gc, OnceLock<OnceVal<'gc>>>),
    F(Gc<'gc, FieldBox<'gc>>),
}

#[derive(Copy, Clone)]
pub enum WPtr<'gc> {
    N(GcWeak<'gc, RefLock<Node<'gc>>>),
    S(GcWeak<'gc, RefLock<Leaf>>),
    L(GcWeak<'gc, Lock<LockVal<'gc>>>),
    O(GcWeak<'gc, OnceLock<OnceVal<'gc>>>),
    F(GcWeak<'gc, FieldBox<'gc>>),
}

unsafe impl<'gc> Collect<'gc> for Ptr<'gc> {
    fn trace<C: Trace<'gc>>(&self, cc: &mut C) {
        match self {
            Ptr::N(g) => cc.trace(g),
            Ptr::S(g) => cc.trace(g),
            Ptr::L(g) => cc.trace(g),
            Ptr::O(g) => cc.trace(g),
            Ptr::F(g) => cc.trace(g),
        }
    }
}

unsafe impl<'gc> Collect<'gc> for WPtr<'gc> {
    fn trace<C: Trace<'gc>>(&self, cc: &mut C) {
        match self {
            WPtr::N(g) => cc.trace(g),
            WPtr::S(g) => cc.trace(g),
            WPtr::L(g) => cc.trace(g),
            WPtr::O(g) => cc.trace(g),
            WPtr::F(g) => cc.trace(g),
        }
    }
}

impl<'gc> Ptr<'gc> {
    pub fn addr(self) -> usize {
        match self {
            Ptr::N(g) => Gc::as_ptr(g) as usize,
            Ptr::S(g) => Gc::as_ptr(g) as usize,
            Ptr::L(g) => Gc::as_ptr(g) as usize,
            Ptr::O(g) => Gc::as_ptr(g) as usize,
            Ptr::F(g) => Gc::as_ptr(g) as usize,
        }
    }
    pub fn erase(self) -> Gc<'gc, ()> {
        match self {
            Ptr::N(g) => Gc::erase(g),
            Ptr::S(g) => Gc::erase(g),
            Ptr::L(g) => Gc::erase(g),
            Ptr::O(g) => Gc::erase(g),
            Ptr::F(g) => Gc::erase(g),
        }
    }
    pub fn downgrade(self) -> WPtr<'gc> {
        match self {
            Ptr::N(g) => WPtr::N(Gc::downgrade(g)),
            Ptr::S(g) => WPtr::S(Gc::downgrade(g)),
            Ptr::L(g) => WPtr::L(Gc::downgrade(g)),
            Ptr::O(g) => WPtr::O(Gc::downgrade(g)),
            Ptr::F(g) => WPtr::F(Gc::downgrade(g)),
        }
    }
    pub fn is_dead(self, fc: &gc_arena::Finalization<'gc>) -> bool {
        match self {
            Ptr::N(g) => Gc::is_dead(fc, g),
            Ptr::S(g) => Gc::is_dead(fc, g),
            Ptr::L(g) => Gc::is_dead(fc, g),
            Ptr::O(g) => Gc::is_dead(fc, g),
            Ptr::F(g) => Gc::is_dead(fc, g),
        }
    }
    pub fn resurrect(self, fc: &gc_arena::Finalization<'gc>) {
        match self {
            Ptr::N(g) => Gc::resurrect(fc, g),
            Ptr::S(g) => Gc::resurrect(fc, g),
            Ptr::L(g) => Gc::resurrect(fc, g),
            Ptr::O(g) => Gc::resurrect(fc, g),
            Ptr::F(g) => Gc::resurrect(fc, g),
        }
    }
}

impl<'gc> WPtr<'gc> {
    pub fn addr(self) -> usize {
        match self {
            WPtr::N(g) => g.as_ptr() as usize,
            WPtr::S(g) => g.as_ptr() as usize,
            WPtr::L(g) => g.as_ptr() as usize,
            WPtr::O(g) => g.as_ptr() as usize,
            WPtr::F(g) => g.as_ptr() as usize,
        }
    }
    pub fn erase(self) -> GcWeak<'gc, ()> {
        match self {
            WPtr::N(g) => GcWeak::erase(g),
            WPtr::S(g) => GcWeak::erase(g),
            WPtr::L(g) => GcWeak::erase(g),
            WPtr::O(g) => GcWeak::erase(g),
            WPtr::F(g) => GcWeak::erase(g),
        }
    }
    pub fn upgrade(self, mc: &gc_arena::Mutation<'gc>) -> Option<Ptr<'gc>> {
        match self {
            WPtr::N(g) => g.upgrade(mc).map(Ptr::N),
            WPtr::S(g) => g.upgrade(mc).map(Ptr::S),
            WPtr::L(g) => g.upgrade(mc).map(Ptr::L),
            WPtr::O(g) => g.upgrade(mc).map(Ptr::O),
            WPtr::F(g) => g.upgrade(mc).map(Ptr::F),
        }
    }
    pub fn is_dropped(self) -> bool {
        match self {
            WPtr::N(g) => g.is_dropped(),
            WPtr::S(g) => g.is_dropped(),
            WPtr::L(g) => g.is_dropped(),
            WPtr::O(g) => g.is_dropped(),
            WPtr::F(g) => g.is_dropped(),
        }
    }
    pub fn is_dead(self, fc: &gc_arena::Finalization<'gc>) -> bool {
        match self {
            WPtr::N(g) => g.is_dead(fc),
            WPtr::S(g) => g.is_dead(fc),
            WPtr::L(g) => g.is_dead(fc),
            WPtr::O(g) => g.is_dead(fc),
            WPtr::F(g) => g.is_dead(fc),
        }
    }
    pub fn resurrect(self, fc: &gc_arena::Finalization<'gc>) -> Option<Ptr<'gc>> {
        match self {
            WPtr::N(g) => g.resurrect(fc).map(Ptr::N),
            WPtr::S(g) => g.resurrect(fc).map(Ptr::S),
            WPtr::L(g) => g.resurrect(fc).map(Ptr::L),
            WPtr::O(g) => g.resurrect(fc).map(Ptr::O),
            WPtr::F(g) => g.resurrect(fc).map(Ptr::F),
        }
    }
}

// ------------------------------------------------------------------ inline ordered lists
#[derive(Copy, Clone)]
pub struct Inl<T: Copy, const N: usize> {
    pub len: u8,
    pub items: [Option<T>; N],
}

impl<T: Copy, const N: usize> Inl<T, N> {
    pub fn new() -> Self {
        Inl { len: 0, items: [None; N] }
    }
    pub fn push(&mut self, t: T) -> bool {
        if (self.len as usize) < N {
            self.items[self.len as usize] = Some(t);
            self.len += 1;
            true
        } else {
            false
        }
    }
    pub fn remove_at(&mut self, i: usize) {
        let n = self.len as usize;
        for j in i..n - 1 {
            self.items[j] = self.items[j + 1];
        }
        self.items[n - 1] = None;
        self.len -= 1;
    }
    pub fn iter(&self) -> impl Iterator<Item = T> + '_ {
        self.items[..self.len as usize].iter().map(|x| x.unwrap())
    }
}

// ------------------------------------------------------------------ headers
/// Identity + liveness marker carried by every harness value that has a destructor.
pub struct Hdr {
    pub serial: u32,
    pub canary: u32,
    pub state: Cell<u8>,
    pub drops: Cell<u8>,
}

impl Hdr {
    pub fn new(serial: u32) -> Self {
        Hdr { serial, canary: canary_of(serial), state: Cell::new(ST_LIVE), drops: Cell::new(0) }
    }
    /// (intact, live)
    pub fn check(&self, serial: u32) -> (bool, bool) {
        (self.serial == serial && self.canary == canary_of(serial), self.state.get() == ST_LIVE)
    }
}

impl Drop for Hdr {
    fn drop(&mut self) {
        self.state.set(ST_DEAD);
        self.drops.set(self.drops.get().saturating_add(1));
        let panics = dtor_tick();
        log::destruct(self.serial, panics);
        if panics {
            unwind();
        }
    }
}

// ------------------------------------------------------------------ kind N
pub struct Node<'gc> {
    pub hdr: Hdr,
    pub strong: Inl<Ptr<'gc>, MAXK>,
    pub weak: Inl<WPtr<'gc>, MAXW>,
}

impl<'gc> Node<'gc> {
    pub fn new(serial: u32) -> Self {
        Node { hdr: Hdr::new(serial), strong: Inl::new(), weak: Inl::new() }
    }
}

unsafe impl<'gc> Collect<'gc> for Node<'gc> {
    fn trace<C: Trace<'gc>>(&self, cc: &mut C) {
        let lim = tick();
        let mut n = 0;
        maybe_unwind(lim, n);
        for p in self.strong.iter() {
            cc.trace(&p);
            n += 1;
            maybe_unwind(lim, n);
        }
        strong_done(lim);
        for w in self.weak.iter() {
            cc.trace(&w);
        }
        all_done(lim);
    }
}

// ------------------------------------------------------------------ kind S
pub struct Leaf {
    pub hdr: Hdr,
    pub scratch: Cell<u32>,
}

unsafe impl<'gc> Collect<'gc> for Leaf {
    const NEEDS_TRACE: bool = false;
}

// ------------------------------------------------------------------ kind L
#[derive(Copy, Clone)]
pub struct LockVal<'gc> {
    pub serial: u32,
    pub canary: u32,
    pub child: Option<Ptr<'gc>>,
    pub wchild: Option<WPtr<'gc>>,
}

unsafe impl<'gc> Collect<'gc> for LockVal<'gc> {
    fn trace<C: Trace<'gc>>(&self, cc: &mut C) {
        let lim = tick();
        maybe_unwind(lim, 0);
        if let Some(p) = &self.child {
            cc.trace(p);
        }
        strong_done(lim);
        if let Some(w) = &self.wchild {
            cc.trace(w);
        }
        all_done(lim);
    }
}

// ------------------------------------------------------------------ kind O
pub struct OnceVal<'gc> {
    pub child: Ptr<'gc>,
}

unsafe impl<'gc> Collect<'gc> for OnceVal<'gc> {
    fn trace<C: Trace<'gc>>(&self, cc: &mut C) {
        let lim = tick();
        maybe_unwind(lim, 0);
        cc.trace(&self.child);
        all_done(lim);
    }
}

// ------------------------------------------------------------------ kind F
pub struct FieldBody<'gc> {
    pub strong: Inl<Ptr<'gc>, MAXK>,
    pub weak: Inl<WPtr<'gc>, MAXW>,
}

unsafe impl<'gc> Collect<'gc> for FieldBody<'gc> {
    fn trace<C: Trace<'gc>>(&self, cc: &mut C) {
        let lim = tick();
        let mut n = 0;
        maybe_unwind(lim, n);
        for p in self.strong.iter() {
            cc.trace(&p);
            n += 1;
            maybe_unwind(lim, n);
        }
        strong_done(lim);
        for w in self.weak.iter() {
            cc.trace(&w);
        }
        all_done(lim);
    }
}

pub struct FieldBox<'gc> {
    pub hdr: Hdr,
    pub body: RefLock<FieldBody<'gc>>,
}

unsafe impl<'gc> Collect<'gc> for FieldBox<'gc> {
    fn trace<C: Trace<'gc>>(&self, cc: &mut C) {
        cc.trace(&self.body);
    }
}

// ------------------------------------------------------------------ the root
pub struct Root<'gc> {
    pub strong: Vec<Ptr<'gc>>,
    pub weak: Vec<WPtr<'gc>>,
    pub sets: Vec<DynamicRootSet<'gc>>,
}

unsafe impl<'gc> Collect<'gc> for Root<'gc> {
    fn trace<C: Trace<'gc>>(&self, cc: &mut C) {
        let lim = tick();
        let mut n = 0;
        maybe_unwind(lim, n);
        for p in &self.strong {
            cc.trace(p);
            n += 1;
            maybe_unwind(lim, n);
        }
        for d in &self.sets {
            cc.trace(d);
            n += 1;
            maybe_unwind(lim, n);
        }
        strong_done(lim);
        for w in &self.weak {
            cc.trace(w);
        }
        all_done(lim);
    }
}
