fn main(){}
