//! gcv-harness: recorder / replayer for the gc-arena verification framework.
//!
//!   gcv-harness replay --in <behaviours.ndjson> --trace <out.ndjson> --report <out.json>
//!                      [--epilogues c02,drop] [--shard i/n] [--limit N]
//!
//! The harness contains no oracle: it executes, observes and records.  Traces are judged by
//! the TLA+ monitor (spec/GcMonitor.tla) through TLC trace validation.

mod alloc;
mod driver;
mod heap;
mod log;
mod replay;
mod world;

use std::io::{BufRead, Write};

#[global_allocator]
pub static ALLOC: alloc::Tracking = alloc::Tracking::new();

fn arg(args: &[String], name: &str) -> Option<String> {
    args.iter().position(|a| a == name).and_then(|i| args.get(i + 1).cloned())
}

fn main() {
    let args: Vec<String> = std::env::args().collect();
    let verbose = std::env::var("GCV_VERBOSE").is_ok();
    std::panic::set_hook(Box::new(move |info| {
        if verbose {
            eprintln!("[panic] {info}");
        }
    }));
    match args.get(1).map(|s| s.as_str()) {
        Some("replay") => cmd_replay(&args),
        Some("random") => cmd_random(&args),
        _ => {
            eprintln!("usage: gcv-harness replay ...");
            std::process::exit(2);
        }
    }
}

fn cmd_replay(args: &[String]) {
    let input = arg(args, "--in").expect("--in");
    let trace_path = arg(args, "--trace").expect("--trace");
    let report_path = arg(args, "--report").expect("--report");
    let epilogues: Vec<String> =
        arg(args, "--epilogues").unwrap_or_else(|| "c02,drop".to_string()).split(',').map(|s| s.to_string()).collect();
    let (shard_i, shard_n) = arg(args, "--shard")
        .map(|s| {
            let (a, b) = s.split_once('/').expect("i/n");
            (a.parse::<usize>().unwrap(), b.parse::<usize>().unwrap())
        })
        .unwrap_or((0, 1));
    let limit = arg(args, "--limit").map(|s| s.parse::<usize>().unwrap()).unwrap_or(usize::MAX);
    let from = arg(args, "--from").map(|s| s.parse::<usize>().unwrap()).unwrap_or(0);
    let upto = arg(args, "--upto").map(|s| s.parse::<usize>().unwrap()).unwrap_or(usize::MAX);
    // the index of the behaviour being replayed, for the runner to find after a crash
    let mut progress = arg(args, "--progress").map(|p| std::fs::OpenOptions::new().create(true).write(true).truncate(true).open(p).expect("progress"));

    let f = std::io::BufReader::new(std::fs::File::open(&input).expect("open input"));
    let mut out = std::io::BufWriter::new(std::fs::File::create(&trace_path).expect("create trace"));
    let mut n = 0usize;
    let mut runs = 0usize;
    let mut skipped = 0usize;
    let mut diverged = 0usize;
    let mut drift_count = 0usize;
    let mut debt_drift_count = 0usize;
    let mut debt_checked = 0usize;
    let mut drift_samples: Vec<serde_json::Value> = Vec::new();
    let mut ops_total = 0usize;
    for (idx, line) in f.lines().enumerate() {
        let line = line.expect("read");
        if line.trim().is_empty() || idx % shard_n != shard_i || idx < from || idx > upto {
            continue;
        }
        if let Some(pf) = progress.as_mut() {
            use std::io::{Seek, SeekFrom};
            let _ = pf.seek(SeekFrom::Start(0));
            let _ = write!(pf, "{idx:012}");
        }
        if n >= limit {
            break;
        }
        let beh: serde_json::Value = match serde_json::from_str(&line) {
            Ok(v) => v,
            Err(e) => {
                eprintln!("bad behaviour line {idx}: {e}");
                std::process::exit(2);
            }
        };
        n += 1;
        for (k, ep) in epilogues.iter().enumerate() {
            let r = replay::replay(&beh, idx, ep);
            runs += 1;
            out.write_all(log::take().as_bytes()).unwrap();
            if k == 0 {
                ops_total += r.ops_done;
                skipped += r.skipped;
                if r.diverged {
                    diverged += 1;
                }
                if beh.get("pacing").is_some() {
                    debt_checked += 1;
                }
                if let Some((k, m, re)) = r.debt_drift {
                    debt_drift_count += 1;
                    if drift_samples.len() < 10 {
                        drift_samples.push(serde_json::json!({"beh": idx, "fields": ["debt"], "op_index": k, "model": m, "real": re, "ops": beh.get("ops")}));
                    }
                }
                if !r.drift.is_empty() {
                    drift_count += 1;
                    if drift_samples.len() < 10 {
                        drift_samples.push(serde_json::json!({
                            "beh": idx, "fields": r.drift, "real": r.real_final,
                            "model": beh.get("final"), "ops": beh.get("ops")}));
                    }
                }
            }
        }
    }
    ALLOC.reset();
    out.flush().unwrap();
    let report = serde_json::json!({
        "behaviours": n, "runs": runs, "ops": ops_total, "events": log::count(),
        "skipped_ops": skipped, "diverged": diverged, "drift": drift_count, "drift_samples": drift_samples,
        "debt_drift": debt_drift_count, "debt_checked": debt_checked,
    });
    std::fs::write(&report_path, serde_json::to_string_pretty(&report).unwrap()).unwrap();
}

/// gcv-harness random --seed S --runs N [--first K] --steps M --trace <out.ndjson> --report <out.json>
fn cmd_random(args: &[String]) {
    let seed: u64 = arg(args, "--seed").map(|s| s.parse().unwrap()).unwrap_or(1);
    let runs: usize = arg(args, "--runs").map(|s| s.parse().unwrap()).unwrap_or(10);
    let first: usize = arg(args, "--first").map(|s| s.parse().unwrap()).unwrap_or(0);
    let steps: usize = arg(args, "--steps").map(|s| s.parse().unwrap()).unwrap_or(200);
    let max_objs: usize = arg(args, "--max-objs").map(|s| s.parse().unwrap()).unwrap_or(64);
    let trace_path = arg(args, "--trace").expect("--trace");
    let report_path = arg(args, "--report").expect("--report");
    let mut out = std::io::BufWriter::new(std::fs::File::create(&trace_path).expect("create trace"));
    let p = driver::Params { steps, max_objs };
    for k in first..first + runs {
        driver::run(seed, k, &p);
        out.write_all(log::take().as_bytes()).unwrap();
    }
    ALLOC.reset();
    out.flush().unwrap();
    let report = serde_json::json!({"behaviours": runs, "runs": runs, "ops": runs * steps, "events": log::count(),
        "skipped_ops": 0, "diverged": 0, "drift": 0, "drift_samples": [], "seed": seed, "first": first, "steps": steps});
    std::fs::write(&report_path, serde_json::to_string_pretty(&report).unwrap()).unwrap();
}
