//! One arena under observation: executes model operations through gc-arena's PUBLIC API and
//! records what can be observed.  Objects are addressed by identity found through a lock-step
//! traversal of the real graph from the real root; no pointer is kept across callbacks.

use std::collections::{HashMap, HashSet};
use std::panic::{AssertUnwindSafe, catch_unwind};

use gc_arena::{
    Arena, DynamicRoot, DynamicRootSet, Finalization, Gc, Lock, Mutation, RefLock, Rootable,
    arena::CollectionPhase,
    barrier::{field, unlock},
    lock::OnceLock,
    metrics::{Metrics, Pacing},
};

use crate::ALLOC;
use crate::ev;
use crate::heap::*;

pub type MyArena = Arena<Rootable![Root<'_>]>;
pub type NodeRootable = Rootable![RefLock<Node<'_>>];

/// A DynamicRoot handle held by the harness, outside every arena.
pub struct HandleRec {
    pub h: DynamicRoot<NodeRootable>,
    pub arena: u32,
    pub set: u32,
    pub obj: u32,
}

thread_local! {
    /// every handle of the running behaviour, by handle number (handles outlive arenas)
    pub static HANDLES: std::cell::RefCell<std::collections::BTreeMap<u32, HandleRec>> = const { std::cell::RefCell::new(std::collections::BTreeMap::new()) };
}

pub const BIG: f64 = 1_099_511_627_776.0; // 2^40
pub const SLEEP_LONG: usize = 1 << 30;

#[derive(Clone, Copy, PartialEq, Eq, Debug, Hash)]
pub enum Kind {
    N,
    S,
    L,
    O,
    F,
}

impl Kind {
    pub fn parse(s: &str) -> Kind {
        match s {
            "N" => Kind::N,
            "S" => Kind::S,
            "L" => Kind::L,
            "O" => Kind::O,
            "F" => Kind::F,
            _ => panic!("unknown kind {s}"),
        }
    }
    pub fn name(self) -> &'static str {
        match self {
            Kind::N => "N",
            Kind::S => "S",
            Kind::L => "L",
            Kind::O => "O",
            Kind::F => "F",
        }
    }
    pub fn has_dtor(self) -> bool {
        matches!(self, Kind::N | Kind::S | Kind::F)
    }
    pub fn needs_trace(self) -> bool {
        !matches!(self, Kind::S)
    }
}

pub struct Info {
    pub serial: u32,
    pub kind: Kind,
    pub addr: usize,
    pub model: String,
}

/// Everything except the arena itself (so that callbacks can borrow it mutably).
pub struct St {
    pub id: u32, // arena number (C20)
    pub next_serial: u32,
    pub serial_base: u32,
    pub by_model: HashMap<String, u32>,
    pub info: HashMap<u32, Info>,
    // the mutator-made graph, by serial; used to find operands and to check node contents
    pub sh_strong: HashMap<u32, Vec<u32>>,
    pub sh_weak: HashMap<u32, Vec<u32>>,
    pub root_s: Vec<u32>,
    pub root_w: Vec<u32>,
    pub sets: Vec<u32>, // serials of the DynamicRootSets held by the root, in order
    pub diverged: bool,
    pub quiet_survey: bool,
    pub fail_next: bool, // the running try_map_root callback returns Err
    pub leaked: std::collections::HashSet<u32>, // RefLock nodes frozen by a leaked RefMut
}

pub fn phase_name(p: CollectionPhase) -> &'static str {
    match p {
        CollectionPhase::Sleeping => "Sleeping",
        CollectionPhase::Marking => "Marking",
        CollectionPhase::Marked => "Marked",
        CollectionPhase::Sweeping => "Sweeping",
    }
}

fn tag_of_addr(addr: usize) -> Option<(u32, bool)> {
    ALLOC.block_containing(addr).map(|b| (b.tag, b.released))
}

pub fn panic_message(e: &(dyn std::any::Any + Send)) -> String {
    if e.is::<InjectedFault>() {
        "injected".to_string()
    } else if let Some(s) = e.downcast_ref::<&str>() {
        s.to_string()
    } else if let Some(s) = e.downcast_ref::<String>() {
        s.clone()
    } else {
        "?".to_string()
    }
}

fn is_arith(msg: &str) -> bool {
    msg.contains("overflow") || msg.contains("underflow") || msg.contains("divide by zero")
}

fn jstr(s: &str) -> String {
    serde_json::to_string(s).unwrap()
}

pub type Found<'gc> = HashMap<u32, Ptr<'gc>>;

impl St {
    pub fn new(id: u32, serial_base: u32) -> St {
        St {
            id,
            next_serial: serial_base,
            serial_base,
            by_model: HashMap::new(),
            info: HashMap::new(),
            sh_strong: HashMap::new(),
            sh_weak: HashMap::new(),
            root_s: Vec::new(),
            root_w: Vec::new(),
            sets: Vec::new(),
            diverged: false,
            quiet_survey: false,
            leaked: Default::default(),
            fail_next: false,
        }
    }

    /// The callback is about to unwind (or to return Err): its body is over.  If the entry
    /// point consumes the arena, everything is dropped while the unwind leaves it.
    pub fn unwind_point(&self, consumes: bool) {
        ev!("{{\"ev\":\"cb_unwind\",\"a\":{},\"consumes\":{}}}", self.id, consumes);
    }

    pub fn panic_now(&self, consumes: bool) -> ! {
        self.unwind_point(consumes);
        std::panic::resume_unwind(Box::new(InjectedFault))
    }

    pub fn serial_of(&self, model: &str) -> Option<u32> {
        self.by_model.get(model).copied()
    }

    // ------------------------------------------------------------ allocation
    pub fn alloc<'gc>(&mut self, mc: &Mutation<'gc>, kind: Kind, model: &str) -> Ptr<'gc> {
        let serial = self.next_serial;
        self.next_serial += 1;
        let p = match kind {
            Kind::N => {
                let v = RefLock::new(Node::new(serial));
                ALLOC.arm(serial);
                Ptr::N(Gc::new(mc, v))
            }
            Kind::S => {
                let v = RefLock::new(Leaf { hdr: Hdr::new(serial), scratch: std::cell::Cell::new(0) });
                ALLOC.arm(serial);
                Ptr::S(Gc::new(mc, v))
            }
            Kind::L => {
                let v = Lock::new(LockVal { serial, canary: canary_of(serial), child: None, wchild: None });
                ALLOC.arm(serial);
                Ptr::L(Gc::new(mc, v))
            }
            Kind::O => {
                let v: OnceLock<OnceVal<'gc>> = OnceLock::new();
                ALLOC.arm(serial);
                Ptr::O(Gc::new(mc, v))
            }
            Kind::F => {
                let v = FieldBox {
                    hdr: Hdr::new(serial),
                    body: RefLock::new(FieldBody { strong: Inl::new(), weak: Inl::new() }),
                };
                ALLOC.arm(serial);
                Ptr::F(Gc::new(mc, v))
            }
        };
        let armed_left = ALLOC.disarm();
        let addr = p.addr();
        let blk = ALLOC.block_by_tag(serial);
        let (size, align, off) = match blk {
            Some(b) => (b.size as i64, b.align as i64, addr as i64 - b.user as i64),
            None => (-1, -1, -1),
        };
        ev!(
            "{{\"ev\":\"alloc\",\"a\":{},\"o\":{},\"k\":\"{}\",\"dtor\":{},\"nt\":{},\"size\":{},\"align\":{},\"off\":{},\"tracked\":{}}}",
            self.id,
            serial,
            kind.name(),
            kind.has_dtor(),
            kind.needs_trace(),
            size,
            align,
            off,
            blk.is_some() && !armed_left
        );
        self.info.insert(serial, Info { serial, kind, addr, model: model.to_string() });
        self.by_model.insert(model.to_string(), serial);
        self.sh_strong.insert(serial, Vec::new());
        self.sh_weak.insert(serial, Vec::new());
        p
    }

    // ------------------------------------------------------------ dynamic roots (C14)
    /// `DynamicRootSet::new`, stored in the root.  The set's GC object is the SECOND allocation
    /// the constructor makes (the first is its `Rc<RefCell<Slots>>`).
    pub fn new_set<'gc>(&mut self, mc: &Mutation<'gc>, root: &mut Root<'gc>, model: &str) {
        let serial = self.next_serial;
        self.next_serial += 1;
        ALLOC.arm_skip(serial, 1);
        let set = DynamicRootSet::new(mc);
        let armed_left = ALLOC.disarm();
        let blk = ALLOC.block_by_tag(serial);
        let (size, align) = blk.map(|b| (b.size as i64, b.align as i64)).unwrap_or((-1, -1));
        ev!(
            "{{\"ev\":\"alloc\",\"a\":{},\"o\":{},\"k\":\"D\",\"dtor\":false,\"nt\":true,\"size\":{},\"align\":{},\"off\":16,\"tracked\":{}}}",
            self.id, serial, size, align, blk.is_some() && !armed_left
        );
        self.info.insert(serial, Info { serial, kind: Kind::N, addr: blk.map(|b| b.user + 16).unwrap_or(0), model: model.to_string() });
        self.by_model.insert(model.to_string(), serial);
        root.sets.push(set);
        self.sets.push(serial);
        ev!("{{\"ev\":\"store\",\"a\":{},\"p\":0,\"c\":{},\"path\":\"mutate_root\",\"effective\":true}}", self.id, serial);
    }

    pub fn remove_set<'gc>(&mut self, root: &mut Root<'gc>, model: &str) -> bool {
        let Some(serial) = self.serial_of(model) else { return false };
        let Some(i) = self.sets.iter().position(|x| *x == serial) else { return false };
        root.sets.remove(i);
        self.sets.remove(i);
        ev!("{{\"ev\":\"remove\",\"a\":{},\"p\":0,\"c\":{},\"path\":\"mutate_root\"}}", self.id, serial);
        true
    }

    pub fn stash<'gc>(&mut self, mc: &Mutation<'gc>, root: &Root<'gc>, set_model: &str, cs: u32, c: Ptr<'gc>, hid: u32) -> bool {
        let Some(set_serial) = self.serial_of(set_model) else { return false };
        let Some(i) = self.sets.iter().position(|x| *x == set_serial) else { return false };
        let Ptr::N(g) = c else { return false };
        let h = root.sets[i].stash::<NodeRootable>(mc, g);
        HANDLES.with(|hs| hs.borrow_mut().insert(hid, HandleRec { h, arena: self.id, set: set_serial, obj: cs }));
        ev!("{{\"ev\":\"stash\",\"a\":{},\"set\":{},\"o\":{},\"h\":{}}}", self.id, set_serial, cs, hid);
        true
    }

    // ------------------------------------------------------------ lock-step traversal
    pub fn kids_of<'gc>(p: Ptr<'gc>) -> (Vec<Ptr<'gc>>, Vec<WPtr<'gc>>) {
        match p {
            Ptr::N(g) => {
                // a cell frozen by a leaked RefMut cannot be read
                let Ok(b) = g.try_borrow() else { return (vec![], vec![]) };
                (b.strong.iter().collect(), b.weak.iter().collect())
            }
            Ptr::S(_) => (vec![], vec![]),
            Ptr::L(g) => {
                let v = g.get();
                (v.child.into_iter().collect(), v.wchild.into_iter().collect())
            }
            Ptr::O(g) => (g.get().map(|v| v.child).into_iter().collect(), vec![]),
            Ptr::F(g) => {
                let b = g.body.borrow();
                (b.strong.iter().collect(), b.weak.iter().collect())
            }
        }
    }

    /// (intact, live) of the value behind a pointer whose block is known to be allocated
    fn value_check<'gc>(p: Ptr<'gc>, serial: u32) -> (bool, bool) {
        match p {
            Ptr::N(g) => g.try_borrow().map(|b| b.hdr.check(serial)).unwrap_or((true, true)),
            Ptr::S(g) => g.borrow().hdr.check(serial),
            Ptr::L(g) => {
                let v = g.get();
                (v.serial == serial && v.canary == canary_of(serial), true)
            }
            Ptr::O(_) => (true, true),
            Ptr::F(g) => g.hdr.check(serial),
        }
    }

    fn kind_matches(p: Ptr<'_>, k: Kind) -> bool {
        matches!(
            (p, k),
            (Ptr::N(_), Kind::N) | (Ptr::S(_), Kind::S) | (Ptr::L(_), Kind::L) | (Ptr::O(_), Kind::O) | (Ptr::F(_), Kind::F)
        )
    }

    /// Walk everything a callback can reach: strong edges from the root, and weak edges whose
    /// upgrade succeeds.  Every hop is checked against the allocator (block still allocated?)
    /// BEFORE it is dereferenced, then against the identity stored in the value.
    pub fn survey<'gc>(
        &mut self,
        mc: &Mutation<'gc>,
        root: &Root<'gc>,
        fc: Option<&Finalization<'gc>>,
    ) -> Found<'gc> {
        let mut found: Found<'gc> = HashMap::new();
        let mut seen_bad: HashSet<usize> = HashSet::new();
        let mut stack: Vec<Ptr<'gc>> = Vec::new();
        // root content check
        let rs: Vec<Option<u32>> = root.strong.iter().map(|p| tag_of_addr(p.addr()).map(|t| t.0)).collect();
        let want: Vec<Option<u32>> = self.root_s.iter().map(|s| Some(*s)).collect();
        if rs != want {
            ev!("{{\"ev\":\"deref\",\"a\":{},\"o\":0,\"ok\":false,\"why\":\"content\"}}", self.id);
        }
        for p in root.strong.iter().rev() {
            stack.push(*p);
        }
        // dynamic root sets held by the root: present every handle of the behaviour to every set
        for (i, set) in root.sets.iter().enumerate() {
            let Some(&set_serial) = self.sets.get(i) else { continue };
            let set_ok = ALLOC.block_by_tag(set_serial).map(|b| !b.released).unwrap_or(false);
            if !set_ok {
                ev!("{{\"ev\":\"deref\",\"a\":{},\"o\":{},\"ok\":false,\"why\":\"released\"}}", self.id, set_serial);
                continue;
            }
            HANDLES.with(|hs| {
                for (hid, rec) in hs.borrow().iter() {
                    let contains = set.contains(&rec.h);
                    let tf = set.try_fetch(&rec.h);
                    let fetched = tf.as_ref().ok().and_then(|g| tag_of_addr(Gc::as_ptr(*g) as usize)).map(|t| t.0 as i64).unwrap_or(-1);
                    let fp = catch_unwind(AssertUnwindSafe(|| set.fetch(&rec.h)));
                    ev!(
                        "{{\"ev\":\"fetch\",\"a\":{},\"set\":{},\"h\":{},\"contains\":{},\"ok\":{},\"o\":{},\"fetch_panics\":{}}}",
                        self.id, set_serial, hid, contains, tf.is_ok(), fetched, fp.is_err()
                    );
                    if let Ok(g) = tf {
                        stack.push(Ptr::N(g));
                    }
                }
            });
        }
        let mut weak_q: Vec<(i64, WPtr<'gc>)> = root.weak.iter().map(|w| (0i64, *w)).collect();
        loop {
            while let Some(p) = stack.pop() {
                let addr = p.addr();
                let Some((serial, released)) = tag_of_addr(addr) else {
                    if seen_bad.insert(addr) {
                        ev!("{{\"ev\":\"deref\",\"a\":{},\"o\":-1,\"ok\":false,\"why\":\"unknown\"}}", self.id);
                    }
                    continue;
                };
                if found.contains_key(&serial) {
                    continue;
                }
                if released {
                    if seen_bad.insert(addr) {
                        ev!("{{\"ev\":\"deref\",\"a\":{},\"o\":{},\"ok\":false,\"why\":\"released\"}}", self.id, serial);
                    }
                    continue;
                }
                let kind_ok = self.info.get(&serial).map(|i| Self::kind_matches(p, i.kind)).unwrap_or(false);
                if !kind_ok {
                    if seen_bad.insert(addr) {
                        ev!("{{\"ev\":\"deref\",\"a\":{},\"o\":{},\"ok\":false,\"why\":\"kind\"}}", self.id, serial);
                    }
                    continue;
                }
                let (intact, live) = Self::value_check(p, serial);
                if !intact || !live {
                    if seen_bad.insert(addr) {
                        ev!(
                            "{{\"ev\":\"deref\",\"a\":{},\"o\":{},\"ok\":false,\"why\":\"{}\"}}",
                            self.id,
                            serial,
                            if !intact { "corrupt" } else { "destructed" }
                        );
                    }
                    continue;
                }
                found.insert(serial, p);
                let (ks, ws) = Self::kids_of(p);
                let got: Vec<Option<u32>> = ks.iter().map(|c| tag_of_addr(c.addr()).map(|t| t.0)).collect();
                let want: Vec<Option<u32>> =
                    self.sh_strong.get(&serial).map(|v| v.iter().map(|s| Some(*s)).collect()).unwrap_or_default();
                let frozen = self.leaked.contains(&serial);
                if let (Ptr::N(g), false) = (p, frozen) {
                    if g.try_borrow().is_err() {
                        ev!("{{\"ev\":\"deref\",\"a\":{},\"o\":{},\"ok\":false,\"why\":\"borrowed\"}}", self.id, serial);
                        continue;
                    }
                }
                let content_ok = frozen || got == want;
                if !self.quiet_survey || !content_ok {
                    ev!(
                        "{{\"ev\":\"deref\",\"a\":{},\"o\":{},\"ok\":{},\"why\":\"{}\"}}",
                        self.id,
                        serial,
                        content_ok,
                        if content_ok { "" } else { "content" }
                    );
                }
                if let Some(fc) = fc {
                    ev!("{{\"ev\":\"is_dead\",\"a\":{},\"o\":{},\"r\":{},\"weak\":false}}", self.id, serial, p.is_dead(fc));
                }
                for c in ks.iter().rev() {
                    stack.push(*c);
                }
                for w in ws {
                    weak_q.push((serial as i64, w));
                }
            }
            // weak queries of holders found so far
            let Some((holder, w)) = weak_q.pop() else { break };
            let addr = w.addr();
            match tag_of_addr(addr) {
                None => {
                    ev!("{{\"ev\":\"weak\",\"a\":{},\"h\":{},\"t\":-1,\"block\":false,\"some\":false,\"dropped\":false}}", self.id, holder);
                }
                Some((t, true)) => {
                    ev!("{{\"ev\":\"weak\",\"a\":{},\"h\":{},\"t\":{},\"block\":false,\"some\":false,\"dropped\":false}}", self.id, holder, t);
                }
                Some((t, false)) => {
                    let dropped = w.is_dropped();
                    let up = w.upgrade(mc);
                    ev!(
                        "{{\"ev\":\"weak\",\"a\":{},\"h\":{},\"t\":{},\"block\":true,\"some\":{},\"dropped\":{}}}",
                        self.id,
                        holder,
                        t,
                        up.is_some(),
                        dropped
                    );
                    if let Some(fc) = fc {
                        ev!("{{\"ev\":\"is_dead\",\"a\":{},\"o\":{},\"r\":{},\"weak\":true}}", self.id, t, w.is_dead(fc));
                        if dropped {
                            // GcWeak::resurrect on the shell of a destructed value: must answer None and change nothing
                            let r = w.resurrect(fc);
                            ev!("{{\"ev\":\"resurrect\",\"a\":{},\"t\":{},\"some\":{},\"via\":\"weak\"}}", self.id, t, r.is_some());
                        }
                    }
                    if let Some(p) = up {
                        stack.push(p);
                    }
                }
            }
        }
        found
    }

    /// C03: every pointer obtained during the callback (read from the graph, upgraded, freshly
    /// allocated) must still be valid when the callback ends.
    pub fn recheck<'gc>(&self, found: &Found<'gc>) {
        let mut bad = 0;
        for (serial, p) in found.iter() {
            let ok = match tag_of_addr(p.addr()) {
                Some((t, released)) => t == *serial && !released && Self::value_check(*p, *serial) == (true, true),
                None => false,
            };
            if !ok {
                bad += 1;
                ev!("{{\"ev\":\"held\",\"a\":{},\"o\":{},\"ok\":false}}", self.id, serial);
            }
        }
        ev!("{{\"ev\":\"held\",\"a\":{},\"o\":0,\"ok\":{},\"n\":{}}}", self.id, bad == 0, found.len());
    }

    fn operand<'gc>(&mut self, found: &Found<'gc>, model: &str, role: &str) -> Option<(u32, Ptr<'gc>)> {
        let r = self.serial_of(model).and_then(|s| found.get(&s).map(|p| (s, *p)));
        if r.is_none() {
            self.diverged = true;
            ev!("{{\"ev\":\"skip\",\"a\":{},\"why\":\"operand {} {} not accessible\"}}", self.id, role, model);
        }
        r
    }

    // ------------------------------------------------------------ stores through every path
    fn with_body<'gc, R>(
        mc: &Mutation<'gc>,
        p: Ptr<'gc>,
        c: Option<Ptr<'gc>>,
        w: Option<WPtr<'gc>>,
        path: &str,
        f: impl FnOnce(&mut Inl<Ptr<'gc>, MAXK>, &mut Inl<WPtr<'gc>, MAXW>) -> R,
    ) -> Option<R> {
        let ce = c.map(|c| c.erase());
        match p {
            Ptr::N(g) => {
                let pe = Gc::erase(g);
                match path {
                    "borrow_mut" => {
                        let mut b = g.borrow_mut(mc);
                        let b = &mut *b;
                        Some(f(&mut b.strong, &mut b.weak))
                    }
                    "try_borrow_mut" => {
                        let mut b = g.try_borrow_mut(mc).expect("not borrowed");
                        let b = &mut *b;
                        Some(f(&mut b.strong, &mut b.weak))
                    }
                    "write_unlock" => {
                        let mut b = Gc::write(mc, g).unlock().borrow_mut();
                        let b = &mut *b;
                        Some(f(&mut b.strong, &mut b.weak))
                    }
                    "gc_unlock" => {
                        let mut b = g.unlock(mc).borrow_mut();
                        let b = &mut *b;
                        Some(f(&mut b.strong, &mut b.weak))
                    }
                    _ => {
                        match path {
                            "back_none" => mc.backward_barrier(pe, None),
                            "back_some" => mc.backward_barrier(pe, ce),
                            "fwd_some" => mc.forward_barrier(Some(pe), ce.expect("child")),
                            "fwd_none" => mc.forward_barrier(None, ce.expect("child")),
                            "back_weak" => mc.backward_barrier_weak(pe, w.expect("weak").erase()),
                            "fwd_weak_some" => mc.forward_barrier_weak(Some(pe), w.expect("weak").erase()),
                            "fwd_weak_none" => mc.forward_barrier_weak(None, w.expect("weak").erase()),
                            "raw" => {}
                            _ => return None,
                        }
                        // SAFETY (of the protocol under test): the barrier above was issued in this
                        // callback, or ("raw") nothing is adopted.
                        let mut b = unsafe { g.as_ref_cell() }.borrow_mut();
                        let b = &mut *b;
                        Some(f(&mut b.strong, &mut b.weak))
                    }
                }
            }
            Ptr::F(g) => {
                let pe = Gc::erase(g);
                match path {
                    "field_unlock" => {
                        let mut b = unlock!(Gc::write(mc, g), FieldBox, body).borrow_mut();
                        let b = &mut *b;
                        Some(f(&mut b.strong, &mut b.weak))
                    }
                    "field_write" => {
                        let mut b = field!(Gc::write(mc, g), FieldBox, body).unlock().borrow_mut();
                        let b = &mut *b;
                        Some(f(&mut b.strong, &mut b.weak))
                    }
                    _ => {
                        match path {
                            "back_none" => mc.backward_barrier(pe, None),
                            "back_some" => mc.backward_barrier(pe, ce),
                            "fwd_some" => mc.forward_barrier(Some(pe), ce.expect("child")),
                            "fwd_none" => mc.forward_barrier(None, ce.expect("child")),
                            "back_weak" => mc.backward_barrier_weak(pe, w.expect("weak").erase()),
                            "fwd_weak_some" => mc.forward_barrier_weak(Some(pe), w.expect("weak").erase()),
                            "fwd_weak_none" => mc.forward_barrier_weak(None, w.expect("weak").erase()),
                            "raw" => {}
                            _ => return None,
                        }
                        let mut b = unsafe { g.body.as_ref_cell() }.borrow_mut();
                        let b = &mut *b;
                        Some(f(&mut b.strong, &mut b.weak))
                    }
                }
            }
            _ => None,
        }
    }

    /// `p` adopts the strong pointer `c` through `path`.  Returns false if the path does not exist.
    pub fn store<'gc>(&mut self, mc: &Mutation<'gc>, ps: u32, p: Ptr<'gc>, cs: u32, c: Ptr<'gc>, path: &str) -> bool {
        let mut effective = true;
        let done = match p {
            Ptr::N(_) | Ptr::F(_) => Self::with_body(mc, p, Some(c), None, path, |s, _| s.push(c)).unwrap_or(false),
            Ptr::L(g) => {
                let mut v = g.get();
                v.child = Some(c);
                match path {
                    "lock_set" => g.set(mc, v),
                    "back_some" => {
                        mc.backward_barrier(Gc::erase(g), Some(c.erase()));
                        unsafe { g.as_cell() }.set(v)
                    }
                    "back_none" => {
                        mc.backward_barrier(Gc::erase(g), None);
                        unsafe { g.as_cell() }.set(v)
                    }
                    "fwd_none" => {
                        mc.forward_barrier(None, c.erase());
                        unsafe { g.as_cell() }.set(v)
                    }
                    "fwd_some" => {
                        mc.forward_barrier(Some(Gc::erase(g)), c.erase());
                        unsafe { g.as_cell() }.set(v)
                    }
                    _ => return false,
                }
                true
            }
            Ptr::O(g) => match path {
                "once_set" => {
                    let r = g.set(mc, OnceVal { child: c });
                    effective = r.is_ok();
                    true
                }
                "once_init" => {
                    let mut ran = false;
                    let _ = g.get_or_init(mc, || {
                        ran = true;
                        OnceVal { child: c }
                    });
                    effective = ran;
                    true
                }
                _ => return false,
            },
            Ptr::S(_) => false,
        };
        if !done {
            return false;
        }
        ev!(
            "{{\"ev\":\"store\",\"a\":{},\"p\":{},\"c\":{},\"path\":\"{}\",\"effective\":{}}}",
            self.id,
            ps,
            cs,
            path,
            effective
        );
        if effective {
            let l = matches!(p, Ptr::L(_));
            let e = self.sh_strong.entry(ps).or_default();
            if l {
                e.clear();
            }
            e.push(cs);
        }
        true
    }

    pub fn wstore<'gc>(&mut self, mc: &Mutation<'gc>, ps: u32, p: Ptr<'gc>, ts: u32, t: Ptr<'gc>, path: &str) -> bool {
        self.wstore_w(mc, ps, p, ts, t.downgrade(), path)
    }

    /// Store a weak pointer the caller already holds (possibly to a value that can no longer be upgraded).
    pub fn wstore_w<'gc>(&mut self, mc: &Mutation<'gc>, ps: u32, p: Ptr<'gc>, ts: u32, w: WPtr<'gc>, path: &str) -> bool {
        let done = match p {
            Ptr::N(_) | Ptr::F(_) => Self::with_body(mc, p, None, Some(w), path, |_, ws| ws.push(w)).unwrap_or(false),
            Ptr::L(g) => {
                let mut v = g.get();
                v.wchild = Some(w);
                match path {
                    "lock_set" => g.set(mc, v),
                    "back_weak" => {
                        mc.backward_barrier_weak(Gc::erase(g), w.erase());
                        unsafe { g.as_cell() }.set(v)
                    }
                    "fwd_weak_none" => {
                        mc.forward_barrier_weak(None, w.erase());
                        unsafe { g.as_cell() }.set(v)
                    }
                    "fwd_weak_some" => {
                        mc.forward_barrier_weak(Some(Gc::erase(g)), w.erase());
                        unsafe { g.as_cell() }.set(v)
                    }
                    _ => return false,
                }
                true
            }
            _ => false,
        };
        if !done {
            return false;
        }
        ev!("{{\"ev\":\"wstore\",\"a\":{},\"p\":{},\"t\":{},\"path\":\"{}\"}}", self.id, ps, ts, path);
        let l = matches!(p, Ptr::L(_));
        let e = self.sh_weak.entry(ps).or_default();
        if l {
            e.clear();
        }
        e.push(ts);
        true
    }

    pub fn remove<'gc>(&mut self, mc: &Mutation<'gc>, ps: u32, p: Ptr<'gc>, cs: u32, path: &str) -> bool {
        let idx = self.sh_strong.get(&ps).and_then(|v| v.iter().position(|x| *x == cs));
        let Some(idx) = idx else { return false };
        let done = match p {
            Ptr::N(_) | Ptr::F(_) => Self::with_body(mc, p, None, None, path, |s, _| s.remove_at(idx)).is_some(),
            Ptr::L(g) => {
                let mut v = g.get();
                v.child = None;
                match path {
                    "lock_set" => g.set(mc, v),
                    "raw" => unsafe { g.as_cell() }.set(v),
                    _ => return false,
                }
                true
            }
            _ => false,
        };
        if !done {
            return false;
        }
        ev!("{{\"ev\":\"remove\",\"a\":{},\"p\":{},\"c\":{},\"path\":\"{}\"}}", self.id, ps, cs, path);
        self.sh_strong.get_mut(&ps).unwrap().remove(idx);
        true
    }

    pub fn wremove<'gc>(&mut self, mc: &Mutation<'gc>, ps: u32, p: Ptr<'gc>, ts: u32, path: &str) -> bool {
        let idx = self.sh_weak.get(&ps).and_then(|v| v.iter().position(|x| *x == ts));
        let Some(idx) = idx else { return false };
        let done = match p {
            Ptr::N(_) | Ptr::F(_) => Self::with_body(mc, p, None, None, path, |_, w| w.remove_at(idx)).is_some(),
            Ptr::L(g) => {
                let mut v = g.get();
                v.wchild = None;
                match path {
                    "lock_set" => g.set(mc, v),
                    "raw" => unsafe { g.as_cell() }.set(v),
                    _ => return false,
                }
                true
            }
            _ => false,
        };
        if !done {
            return false;
        }
        ev!("{{\"ev\":\"wremove\",\"a\":{},\"p\":{},\"t\":{},\"path\":\"{}\"}}", self.id, ps, ts, path);
        self.sh_weak.get_mut(&ps).unwrap().remove(idx);
        true
    }

    /// A barrier call with no adoption following it.
    pub fn barrier_only<'gc>(&mut self, mc: &Mutation<'gc>, ps: u32, p: Ptr<'gc>, cs: u32, c: Ptr<'gc>, path: &str) -> bool {
        let pe = p.erase();
        let ce = c.erase();
        let we = c.downgrade().erase();
        match (p, path) {
            (Ptr::N(g), "borrow_mut") => drop(g.borrow_mut(mc)),
            (Ptr::N(g), "try_borrow_mut") => drop(g.try_borrow_mut(mc)),
            (Ptr::N(g), "write_unlock") => {
                let _ = Gc::write(mc, g).unlock();
            }
            (Ptr::N(g), "gc_unlock") => {
                let _ = g.unlock(mc);
            }
            (Ptr::S(g), "borrow_mut") => {
                let b = g.borrow_mut(mc);
                b.scratch.set(b.scratch.get().wrapping_add(1));
            }
            (Ptr::S(g), "write_unlock") => {
                let _ = Gc::write(mc, g).unlock();
            }
            (Ptr::F(g), "field_unlock") => {
                let _ = unlock!(Gc::write(mc, g), FieldBox, body);
            }
            (_, "back_none") => mc.backward_barrier(pe, None),
            (_, "back_some") => mc.backward_barrier(pe, Some(ce)),
            (_, "fwd_some") => mc.forward_barrier(Some(pe), ce),
            (_, "fwd_none") => mc.forward_barrier(None, ce),
            (_, "back_weak") => mc.backward_barrier_weak(pe, we),
            (_, "fwd_weak_some") => mc.forward_barrier_weak(Some(pe), we),
            (_, "fwd_weak_none") => mc.forward_barrier_weak(None, we),
            _ => return false,
        }
        ev!("{{\"ev\":\"barrier\",\"a\":{},\"p\":{},\"c\":{},\"path\":\"{}\"}}", self.id, ps, cs, path);
        true
    }

    /// `mem::forget(p.borrow_mut(mc))`: safe code that leaves the RefLock mutably borrowed for good.
    pub fn leak<'gc>(&mut self, mc: &Mutation<'gc>, ps: u32, p: Ptr<'gc>) -> bool {
        let Ptr::N(g) = p else { return false };
        std::mem::forget(g.borrow_mut(mc));
        self.leaked.insert(ps);
        ev!("{{\"ev\":\"barrier\",\"a\":{},\"p\":{},\"c\":{},\"path\":\"borrow_mut\",\"leak\":true}}", self.id, ps, ps);
        true
    }
}

// ====================================================================== the arena wrapper
pub struct World {
    pub arena: Option<MyArena>,
    pub metrics: Metrics,
    pub st: St,
}

#[derive(Clone, Copy, PartialEq, Eq, Debug)]
pub enum Via {
    MutateRoot,
    MapRoot,
    TryMapRoot,
}

impl Via {
    pub fn parse(s: &str) -> Via {
        match s {
            "mutate_root" => Via::MutateRoot,
            "map_root" => Via::MapRoot,
            "try_map_root" => Via::TryMapRoot,
            _ => panic!("unknown via {s}"),
        }
    }
    pub fn name(self) -> &'static str {
        match self {
            Via::MutateRoot => "mutate_root",
            Via::MapRoot => "map_root",
            Via::TryMapRoot => "try_map_root",
        }
    }
}

impl World {
    pub fn new(id: u32, serial_base: u32) -> World {
        ev!("{{\"ev\":\"arena_new\",\"a\":{}}}", id);
        let arena = MyArena::new(|_mc| Root { strong: Vec::new(), weak: Vec::new(), sets: Vec::new() });
        let metrics = arena.metrics().clone();
        World { arena: Some(arena), metrics, st: St::new(id, serial_base) }
    }

    pub fn alive(&self) -> bool {
        self.arena.is_some()
    }

    pub fn phase(&self) -> &'static str {
        match &self.arena {
            Some(a) => phase_name(a.collection_phase()),
            None => "Dropped",
        }
    }

    fn debt_q(&self) -> i64 {
        // scaled by 16: exact for the dyadic pacings used by the harness
        let d = self.metrics.allocation_debt() * 16.0;
        if d.is_finite() && d.abs() < 2.0e9 { d.round() as i64 } else if d > 0.0 { 2_000_000_000 } else { -2_000_000_000 }
    }

    fn debt_flags(&self) -> (bool, bool, bool) {
        let d = self.metrics.allocation_debt();
        (d.is_finite(), d >= 0.0, d > 0.0)
    }

    pub fn drain_releases(&mut self) {
        for r in ALLOC.drain_releases() {
            ev!(
                "{{\"ev\":\"release\",\"o\":{},\"req\":[{},{}],\"rel\":[{},{}],\"double\":{},\"guard_ok\":{}}}",
                r.tag,
                r.req.0,
                r.req.1,
                r.rel.0,
                r.rel.1,
                r.double,
                r.guard_ok
            );
        }
    }

    fn state_fields(&self) -> String {
        let (fin, nonneg, pos) = self.debt_flags();
        format!(
            "\"phase\":\"{}\",\"count\":{},\"debtQ\":{},\"debt_finite\":{},\"debt_nonneg\":{},\"debt_pos\":{},\"outstanding\":{}",
            self.phase(),
            self.metrics.total_gc_count() as i64,
            self.debt_q(),
            fin,
            nonneg,
            pos,
            ALLOC.outstanding()
        )
    }

    // ------------------------------------------------------------ callbacks
    /// Run a `mutate` callback.  The callback body gets the bookkeeping, the context, the root.
    pub fn mutate<F>(&mut self, label: &str, f: F) -> bool
    where
        F: for<'gc> FnOnce(&mut St, &'gc Mutation<'gc>, &'gc Root<'gc>),
    {
        let Some(arena) = self.arena.as_ref() else { return false };
        ev!("{{\"ev\":\"cb_begin\",\"a\":{},\"kind\":\"mutate\",\"label\":\"{}\",{}}}", self.st.id, label, self.state_fields());
        let st = &mut self.st;
        let r = catch_unwind(AssertUnwindSafe(|| arena.mutate(|mc, root| f(st, mc, root))));
        let panicked = r.is_err();
        let msg = r.err().map(|e| panic_message(&*e)).unwrap_or_default();
        self.drain_releases();
        ev!(
            "{{\"ev\":\"cb_end\",\"a\":{},\"kind\":\"mutate\",\"panicked\":{},\"consumed\":false,\"msg\":{},\"arith\":{},{}}}",
            self.st.id,
            panicked,
            jstr(&msg),
            is_arith(&msg),
            self.state_fields()
        );
        !panicked
    }

    /// Run a root-editing callback through `mutate_root`, `map_root` or `try_map_root`.
    pub fn edit_root<F>(&mut self, via: Via, f: F) -> bool
    where
        F: for<'gc> FnOnce(&mut St, &'gc Mutation<'gc>, &mut Root<'gc>),
    {
        if self.arena.is_none() {
            return false;
        }
        ev!("{{\"ev\":\"cb_begin\",\"a\":{},\"kind\":\"{}\",\"label\":\"\",{}}}", self.st.id, via.name(), self.state_fields());
        let st = &mut self.st;
        let r = match via {
            Via::MutateRoot => {
                let arena = self.arena.as_mut().unwrap();
                catch_unwind(AssertUnwindSafe(|| arena.mutate_root(|mc, root| f(st, mc, root))))
            }
            Via::MapRoot => {
                let arena = self.arena.take().unwrap();
                let r = catch_unwind(AssertUnwindSafe(|| {
                    arena.map_root::<Rootable![Root<'_>]>(|mc, mut root| {
                        f(st, mc, &mut root);
                        root
                    })
                }));
                match r {
                    Ok(a) => {
                        self.arena = Some(a);
                        Ok(())
                    }
                    Err(e) => Err(e),
                }
            }
            Via::TryMapRoot => {
                let arena = self.arena.take().unwrap();
                let r = catch_unwind(AssertUnwindSafe(|| {
                    arena.try_map_root::<Rootable![Root<'_>], ()>(|mc, mut root| {
                        f(st, mc, &mut root);
                        if st.fail_next { Err(()) } else { Ok(root) }
                    })
                }));
                match r {
                    Ok(Ok(a)) => {
                        self.arena = Some(a);
                        Ok(())
                    }
                    Ok(Err(())) => Ok(()),
                    Err(e) => Err(e),
                }
            }
        };
        let panicked = r.is_err();
        let msg = r.err().map(|e| panic_message(&*e)).unwrap_or_default();
        let consumed = self.arena.is_none();
        self.drain_releases();
        ev!(
            "{{\"ev\":\"cb_end\",\"a\":{},\"kind\":\"{}\",\"panicked\":{},\"consumed\":{},\"msg\":{},\"arith\":{},{}}}",
            self.st.id,
            via.name(),
            panicked,
            consumed,
            jstr(&msg),
            is_arith(&msg),
            self.state_fields()
        );
        if consumed {
            // the arena was dropped while unwinding out of map_root / try_map_root
            ev!(
                "{{\"ev\":\"drop_end\",\"a\":{},\"panicked\":false,\"count\":{},\"debtQ\":{},\"outstanding\":{}}}",
                self.st.id,
                self.metrics.total_gc_count() as i64,
                self.debt_q(),
                ALLOC.outstanding()
            );
        }
        !panicked
    }

    /// A read-only callback that walks everything accessible and queries every weak pointer.
    pub fn observe(&mut self) {
        self.mutate("observe", |st, mc, root| {
            st.survey(mc, root, None);
        });
    }

    // ------------------------------------------------------------ collector calls
    /// Make the allocation debt exactly `target` (needs a non-empty arena).
    fn set_debt(&self, target: f64) {
        let m = &self.metrics;
        m.adjust_debt(BIG);
        let d = m.allocation_debt();
        m.adjust_debt(target - d);
    }

    fn stepping_pacing(g: &str, cont: bool) -> Pacing {
        let (mark, other) = if g == "P2" { (1.0, 0.0) } else { (0.0, 1.0) };
        Pacing {
            sleep_factor: 0.0,
            min_sleep: if cont { 0 } else { SLEEP_LONG },
            mark_factor: mark,
            trace_factor: other,
            keep_factor: other,
            drop_factor: 0.0,
            free_factor: other,
        }
    }

    /// A collection call of exactly the model's size: `b` earning events of granularity `g`.
    /// `natural` skips the debt preparation (the pacing configured by the caller decides).
    /// Returns whether the call returned normally.
    pub fn call(&mut self, kind: &str, b: u32, g: &str, cont: bool, natural: bool, fin: Option<FinOp>) -> bool {
        if self.arena.is_none() {
            return false;
        }
        let pay = matches!(kind, "collect_debt" | "mark_debt" | "cycle_debt");
        if pay && !natural {
            self.metrics.set_pacing(Self::stepping_pacing(g, cont));
            ev!("{{\"ev\":\"set_pacing\",\"a\":{},\"stepping\":true,\"mf\":{}}}", self.st.id, if g == "P2" { 16 } else { 0 });
            if b == 0 {
                let m = &self.metrics;
                m.adjust_debt(BIG);
                let d = m.allocation_debt();
                m.adjust_debt(-d - 1.0);
            } else {
                self.set_debt(b as f64 - 0.5);
            }
        }
        reset_trace_calls();
        ev!(
            "{{\"ev\":\"call_begin\",\"a\":{},\"kind\":\"{}\",\"b\":{},\"g\":\"{}\",\"cont\":{},\"natural\":{},{}}}",
            self.st.id,
            kind,
            b,
            g,
            cont,
            natural,
            self.state_fields()
        );
        let arena = self.arena.as_mut().unwrap();
        let st = &mut self.st;
        let mut marked = false;
        let r = catch_unwind(AssertUnwindSafe(|| match kind {
            "collect_debt" => arena.collect_debt(),
            "cycle_debt" => arena.cycle_debt(),
            "finish_cycle" => arena.finish_cycle(),
            "mark_debt" | "finish_marking" | "start_sweeping" | "finalize" => {
                let ma = if kind == "mark_debt" { arena.mark_debt() } else { arena.finish_marking() };
                if let Some(ma) = ma {
                    marked = true;
                    if kind == "start_sweeping" {
                        ma.start_sweeping();
                    } else {
                        // always look at the marked arena; resurrect when asked to
                        let id = st.id;
                        ev!("{{\"ev\":\"cb_begin\",\"a\":{},\"kind\":\"finalize\",\"label\":\"\"}}", id);
                        ma.finalize(|fc, root| {
                            let found = st.survey(fc, root, Some(fc));
                            if let Some(FinOp::Resurrect(model)) = &fin {
                                if let Some((ts, p)) = st.operand(&found, model, "t") {
                                    if ts % 2 == 0 {
                                        p.resurrect(fc);
                                        ev!("{{\"ev\":\"resurrect\",\"a\":{},\"t\":{},\"some\":true,\"via\":\"strong\"}}", id, ts);
                                    } else {
                                        // the same through GcWeak::resurrect
                                        let r = p.downgrade().resurrect(fc);
                                        ev!("{{\"ev\":\"resurrect\",\"a\":{},\"t\":{},\"some\":{},\"via\":\"weak\"}}", id, ts, r.is_some());
                                    }
                                }
                            }
                        });
                        ev!("{{\"ev\":\"cb_end\",\"a\":{},\"kind\":\"finalize\",\"panicked\":false,\"msg\":\"\"}}", id);
                    }
                }
            }
            _ => panic!("unknown call kind {kind}"),
        }));
        let disarmed = disarm_fault() | crate::heap::disarm_dfault();
        let panicked = r.is_err();
        let msg = r.err().map(|e| panic_message(&*e)).unwrap_or_default();
        self.drain_releases();
        ev!(
            "{{\"ev\":\"call_end\",\"a\":{},\"kind\":\"{}\",\"marked\":{},\"panicked\":{},\"msg\":{},\"arith\":{},\"fault_left\":{},\"traces\":{},{}}}",
            self.st.id,
            kind,
            marked,
            panicked,
            jstr(&msg),
            is_arith(&msg),
            disarmed,
            trace_calls(),
            self.state_fields()
        );
        !panicked
    }

    pub fn debt_q_pub(&self) -> i64 {
        self.debt_q()
    }

    /// Pacing with dyadic factors (16ths), logged for the monitor.
    pub fn set_pacing_q(&mut self, sf: i64, ms: i64, mf: i64, tf: i64, kf: i64, df: i64, ff: i64) {
        let f = |x: i64| x as f64 / 16.0;
        self.metrics.set_pacing(Pacing {
            sleep_factor: f(sf),
            min_sleep: ms as usize,
            mark_factor: f(mf),
            trace_factor: f(tf),
            keep_factor: f(kf),
            drop_factor: f(df),
            free_factor: f(ff),
        });
        ev!(
            "{{\"ev\":\"set_pacing\",\"a\":{},\"sf\":{},\"ms\":{},\"mf\":{},\"tf\":{},\"kf\":{},\"df\":{},\"ff\":{}}}",
            self.st.id, sf, ms, mf, tf, kf, df, ff
        );
    }

    /// The collector's internal state, for validation against the concrete specification
    /// (GcArenaTrace.tla).  Objects are named by their serials.
    pub fn snap(&self) {
        let Some(arena) = &self.arena else { return };
        let sn = arena.verif_snapshot();
        let id = |addr: usize| ALLOC.block_containing(addr).map(|b| b.tag as i64).unwrap_or(-1);
        let list: Vec<String> = sn.all.iter().map(|(a, c, live, _)| format!("[{},{},{}]", id(*a), c, live)).collect();
        let q = |v: &Vec<usize>| v.iter().map(|a| id(*a).to_string()).collect::<Vec<_>>().join(",");
        ev!(
            "{{\"ev\":\"snap\",\"a\":{},\"phase\":{},\"root_nt\":{},\"count\":{},\"debtQ\":{},\"list\":[{}],\"gray\":[{}],\"gray_again\":[{}],\"sweep\":{},\"sweep_prev\":{}}}",
            self.st.id, sn.phase, sn.root_needs_trace, self.metrics.total_gc_count(), self.debt_q(), list.join(","),
            q(&sn.gray), q(&sn.gray_again), sn.sweep.map(id).unwrap_or(0), sn.sweep_prev.map(id).unwrap_or(0)
        );
    }

    pub fn adjust_debt(&mut self, x_q: i64) {
        let before = self.debt_q();
        self.metrics.adjust_debt(x_q as f64 / 16.0);
        ev!(
            "{{\"ev\":\"adjust_debt\",\"a\":{},\"xQ\":{},\"before\":{},\"after\":{},\"count\":{}}}",
            self.st.id,
            x_q,
            before,
            self.debt_q(),
            self.metrics.total_gc_count()
        );
    }

    pub fn drop_arena(&mut self) {
        if self.arena.is_some() {
            ev!("{{\"ev\":\"drop_begin\",\"a\":{},{}}}", self.st.id, self.state_fields());
            let arena = self.arena.take().unwrap();
            let r = catch_unwind(AssertUnwindSafe(|| drop(arena)));
            crate::heap::disarm_dfault();
            self.drain_releases();
            ev!(
                "{{\"ev\":\"drop_end\",\"a\":{},\"panicked\":{},\"count\":{},\"debtQ\":{},\"outstanding\":{}}}",
                self.st.id,
                r.is_err(),
                self.metrics.total_gc_count() as i64,
                self.debt_q(),
                ALLOC.outstanding()
            );
        }
    }
}

/// Handle operations happen outside every callback and also after the arena is gone.
pub fn clone_handle(hid: u32, hid2: u32) -> bool {
    HANDLES.with(|hs| {
        let mut hs = hs.borrow_mut();
        let Some(rec) = hs.get(&hid) else { return false };
        let r = catch_unwind(AssertUnwindSafe(|| rec.h.clone()));
        let (arena, set, obj) = (rec.arena, rec.set, rec.obj);
        match r {
            Ok(h) => {
                hs.insert(hid2, HandleRec { h, arena, set, obj });
                ev!("{{\"ev\":\"clone_handle\",\"a\":{},\"h\":{},\"h2\":{},\"panicked\":false}}", arena, hid, hid2);
                true
            }
            Err(_) => {
                ev!("{{\"ev\":\"clone_handle\",\"a\":{},\"h\":{},\"h2\":{},\"panicked\":true}}", arena, hid, hid2);
                false
            }
        }
    })
}

pub fn drop_handle(hid: u32) -> bool {
    HANDLES.with(|hs| {
        let Some(rec) = hs.borrow_mut().remove(&hid) else { return false };
        let arena = rec.arena;
        let r = catch_unwind(AssertUnwindSafe(move || drop(rec)));
        ev!("{{\"ev\":\"drop_handle\",\"a\":{},\"h\":{},\"panicked\":{}}}", arena, hid, r.is_err());
        r.is_ok()
    })
}

pub fn clear_handles() {
    HANDLES.with(|hs| hs.borrow_mut().clear());
}

pub enum FinOp {
    Resurrect(String),
}

/// A constructor callback that allocates `n` objects and then fails (C11): `Arena::new` with a
/// panicking callback, or `Arena::try_new` with a callback returning Err.  Everything it
/// allocated must be destructed and released.
pub static AUX_SERIAL: std::sync::atomic::AtomicU32 = std::sync::atomic::AtomicU32::new(100_000);

pub fn failed_new(_serial_base: u32, n: usize, mode: &str) {
    let id = 9;
    let serial_base = AUX_SERIAL.fetch_add(100, std::sync::atomic::Ordering::Relaxed);
    ev!("{{\"ev\":\"arena_new\",\"a\":{}}}", id);
    let mut st = St::new(id, serial_base);
    ev!("{{\"ev\":\"cb_begin\",\"a\":{},\"kind\":\"new\",\"label\":\"{}\"}}", id, mode);
    let stp = &mut st;
    let r = catch_unwind(AssertUnwindSafe(|| {
        if mode == "rootless" {
            // arena::rootless_mutate: a context without a root; nothing is collected while the callback runs
            // (whatever it allocates, links, downgrades and upgrades), everything is when it returns
            gc_arena::arena::rootless_mutate(|mc| {
                let mut found: Found<'_> = HashMap::new();
                let mut prev: Option<(u32, Ptr<'_>)> = None;
                for i in 0..n {
                    let name = format!("x{i}");
                    let p = stp.alloc(mc, Kind::N, &name);
                    let s = stp.serial_of(&name).unwrap();
                    if let Some((ps, pp)) = prev {
                        stp.store(mc, s, p, ps, pp, if i % 2 == 0 { "borrow_mut" } else { "fwd_none" });
                        stp.wstore(mc, ps, pp, s, p, "back_weak");
                        let up = p.downgrade().upgrade(mc);
                        ev!("{{\"ev\":\"weak\",\"a\":{},\"h\":{},\"t\":{},\"block\":true,\"some\":{},\"dropped\":{}}}",
                            id, ps, s, up.is_some(), p.downgrade().is_dropped());
                    }
                    found.insert(s, p);
                    prev = Some((s, p));
                }
                stp.recheck(&found);
                stp.unwind_point(true);
            });
        } else if mode == "panic" {
            let _a = MyArena::new(|mc| {
                let mut root = Root { strong: Vec::new(), weak: Vec::new(), sets: Vec::new() };
                for i in 0..n {
                    let p = stp.alloc(mc, Kind::N, &format!("x{i}"));
                    if i % 2 == 0 {
                        root.strong.push(p);
                    }
                }
                stp.unwind_point(true);
                std::panic::resume_unwind(Box::new(InjectedFault))
            });
        } else {
            let _a = MyArena::try_new(|mc| {
                let mut root = Root { strong: Vec::new(), weak: Vec::new(), sets: Vec::new() };
                for i in 0..n {
                    let p = stp.alloc(mc, Kind::N, &format!("x{i}"));
                    if i % 2 == 0 {
                        root.strong.push(p);
                    }
                }
                stp.unwind_point(true);
                if n < usize::MAX { Err(()) } else { Ok(root) }
            });
        }
    }));
    for rl in ALLOC.drain_releases() {
        ev!(
            "{{\"ev\":\"release\",\"o\":{},\"req\":[{},{}],\"rel\":[{},{}],\"double\":{},\"guard_ok\":{}}}",
            rl.tag, rl.req.0, rl.req.1, rl.rel.0, rl.rel.1, rl.double, rl.guard_ok
        );
    }
    ev!("{{\"ev\":\"cb_end\",\"a\":{},\"kind\":\"new\",\"panicked\":{},\"consumed\":true,\"msg\":\"injected\"}}", id, r.is_err());
    ev!("{{\"ev\":\"drop_end\",\"a\":{},\"panicked\":false,\"count\":0,\"debtQ\":0,\"outstanding\":-1}}", id);
}
