#!/bin/bash
# runs every thorough command once and prints its exit status (used with `vp run` to check that the thorough tier completes)
cd "$(dirname "$0")"
for c in C01 C02 C03 C04 C05 C06 C07 C08 C11 C14 C20 C09 C10 C12 C13 C15 C16 C17 C18 C19; do
  s=$(date +%s); ./check $c --tier thorough > /tmp/thorough_$c.out 2>&1; rc=$?
  echo "$c rc=$rc $(( $(date +%s) - s ))s $(grep -E 'VIOLATION|TOOL-ERROR' /tmp/thorough_$c.out | head -2 | tr '\n' ' ')"
done
