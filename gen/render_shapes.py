#!/usr/bin/env python3
"""Renders TLC's enumeration of TraceShape.tla (ndjson: {"shape":..., "expect":...}) into Rust:
one function per shape that builds the value out of uniquely identifiable pointers.  The
expectation is NOT rendered: the generated program only reports what it observed."""
import json, sys

TY = {"S": "Gc<'gc, u32>", "W": "GcWeak<'gc, u32>", "N": "u32", "OS": "Option<Gc<'gc, u32>>",
      "VS": "Vec<Gc<'gc, u32>>", "BW": "Box<GcWeak<'gc, u32>>"}
EX = {"S": "e.s(mc)", "W": "e.w(mc)", "N": "e.n()", "OS": "e.os(mc)", "VS": "e.vs(mc)", "BW": "e.bw(mc)"}
FEATURE = {"HbHashMap": "hashbrown", "HbHashSet": "hashbrown", "HbHashTable": "hashbrown", "IndexMap": "indexmap",
           "IndexSet": "indexmap", "SlotMap": "slotmap", "SmallVec": "smallvec", "EnumMap": "enum-map"}
RS = "std::collections::hash_map::RandomState"


def lst(expr, n):
    return ", ".join([expr] * n)


def container(sh):
    """returns (setup statements, expression to observe (a reference), feature)"""
    name, leaves, n = sh["name"], sh["leaves"], sh["n"]
    t1, e1 = TY[leaves[0]], EX[leaves[0]]
    t2, e2 = (TY[leaves[1]], EX[leaves[1]]) if len(leaves) > 1 else (None, None)
    pairs = ", ".join([f"({e1}, {e2})"] * n) if t2 else ""
    f = FEATURE.get(name)
    if name == "Option":
        return [f"let v: Option<{t1}> = {'Some(' + e1 + ')' if n else 'None'};"], "&v", f
    if name == "ResultOk":
        return [f"let v: Result<{t1}, {t2}> = Ok({e1});"], "&v", f
    if name == "ResultErr":
        return [f"let v: Result<{t1}, {t2}> = Err({e2});"], "&v", f
    if name == "Array":
        return [f"let v: [{t1}; {n}] = [{lst(e1, n)}];"], "&v", f
    if name == "BoxSlice":
        return [f"let v: Box<[{t1}]> = vec![{lst(e1, n)}].into_boxed_slice();"], "&*v", f
    if name in ("Box", "Rc", "Arc"):
        path = {"Box": "Box", "Rc": "std::rc::Rc", "Arc": "std::sync::Arc"}[name]
        return [f"let v: {path}<{t1}> = {path}::new({e1});"], "&v", f
    if name == "Vec":
        return [f"let v: Vec<{t1}> = vec![{lst(e1, n)}];"], "&v", f
    if name == "VecDeque":
        # alternate push_back / push_front so that the ring buffer wraps: elements in BOTH internal slices
        return ([f"let mut v: std::collections::VecDeque<{t1}> = std::collections::VecDeque::with_capacity(4);"]
                + [(f"v.push_back({e1});" if k % 2 == 0 else f"v.push_front({e1});") for k in range(n)]), "&v", f
    if name in ("LinkedList", "BinaryHeap", "BTreeSet", "HashSet"):
        return [f"let v: std::collections::{name}<{t1}> = vec![{lst(e1, n)}].into_iter().collect();"], "&v", f
    if name in ("BTreeMap", "HashMap"):
        return [f"let v: std::collections::{name}<{t1}, {t2}> = vec![{pairs}].into_iter().collect();"], "&v", f
    if name == "Lock":
        return [f"let v: gc_arena::lock::Lock<{t1}> = gc_arena::lock::Lock::new({e1});"], "&v", f
    if name == "RefLock":
        return [f"let v: gc_arena::lock::RefLock<{t1}> = gc_arena::lock::RefLock::new({e1});"], "&v", f
    if name == "OnceLock":
        s = [f"let c: std::cell::OnceCell<{t1}> = std::cell::OnceCell::new();"]
        if n:
            s.append(f"let _ = c.set({e1});")
        s.append(f"let v: gc_arena::lock::OnceLock<{t1}> = gc_arena::lock::OnceLock::from(c);")
        return s, "&v", f
    if name == "DynTrait":
        return [f"let v: Box<dyn ShapeDyn<'gc> + 'gc> = Box::new({e1});"], "&*v", f
    if name == "SliceWithHeader":
        return [f"let h = {e1};",
                f"let g = gc_arena::GcSliceWithHeaderBuilder::<{t1}, {t2}>::new({n}).write_header(h).write_slice_with(mc, |_| {e2});"], "&*g", f
    if name == "HbHashMap":
        return ([f"let mut v: hashbrown::HashMap<{t1}, {t2}, {RS}> = hashbrown::HashMap::with_hasher({RS}::new());"]
                + [f"v.insert({e1}, {e2});"] * n), "&v", f
    if name == "HbHashSet":
        return [f"let mut v: hashbrown::HashSet<{t1}, {RS}> = hashbrown::HashSet::with_hasher({RS}::new());"] + [f"v.insert({e1});"] * n, "&v", f
    if name == "HbHashTable":
        return ([f"let mut v: hashbrown::HashTable<{t1}> = hashbrown::HashTable::new();"]
                + [f"{{ let x = {e1}; let k = e.next as u64; v.insert_unique(k, x, |_| 0u64); }}"] * n), "&v", f
    if name == "IndexMap":
        return ([f"let mut v: indexmap::IndexMap<{t1}, {t2}, {RS}> = indexmap::IndexMap::with_hasher({RS}::new());"]
                + [f"v.insert({e1}, {e2});"] * n), "&v", f
    if name == "IndexSet":
        return [f"let mut v: indexmap::IndexSet<{t1}, {RS}> = indexmap::IndexSet::with_hasher({RS}::new());"] + [f"v.insert({e1});"] * n, "&v", f
    if name == "SlotMap":
        return [f"let mut v: slotmap::SlotMap<slotmap::DefaultKey, {t1}> = slotmap::SlotMap::new();"] + [f"v.insert({e1});"] * n, "&v", f
    if name == "SmallVec":
        return [f"let mut v: smallvec::SmallVec<[{t1}; 2]> = smallvec::SmallVec::new();"] + [f"v.push({e1});"] * n, "&v", f
    if name == "EnumMap":
        return [f"let v: enum_map::EnumMap<K2, {t1}> = enum_map::EnumMap::from_fn(|_| {e1});"], "&v", f
    raise SystemExit(f"unknown container {name}")


def uses_gc(leaf):
    return leaf != "N"


REC = ("R0", "R1", "RW")


def tyof(leaf, tname):
    """the Rust type of a leaf; recursive leaves mention the type being derived"""
    if leaf in ("R0", "R1"):
        return f"Option<Gc<'gc, {tname}<'gc>>>"
    if leaf == "RW":
        return f"Option<GcWeak<'gc, {tname}<'gc>>>"
    return TY[leaf]


def ex(leaf, inner, e="e"):
    """the expression that builds a leaf; `inner` builds a value of the type being derived whose recursive
    fields are None and whose other pointers come from a throw-away expectation (they sit behind the Gc)"""
    if leaf == "R0":
        return "None"
    if leaf == "R1":
        return f"Some({e}.g(mc, {inner}))"
    if leaf == "RW":
        return f"Some({e}.gw(mc, {inner}))"
    return EX[leaf].replace("e.", e + ".")


def render(grid_path, out_path):
    shapes = [json.loads(l) for l in open(grid_path)]
    types, fns, calls = [], [], []
    for i, rec in enumerate(shapes):
        sh = rec["shape"]
        feat = None
        body = []
        if sh["kind"] == "container":
            body, ref, feat = container(sh)
        elif sh["kind"] == "tuple":
            a, p, l = sh["arity"], sh["pos"], sh["leaf"]
            elems = [(EX[l] if k == p else "e.n()") for k in range(1, a + 1)]
            tys = [(TY[l] if k == p else "u32") for k in range(1, a + 1)]
            body = [f"let v: ({', '.join(tys)},) = ({', '.join(elems)},);"]
            ref = "&v"
        elif sh["kind"] == "struct":
            fields, rs, style, gen = sh["fields"], set(sh["rs"]), sh["style"], sh["generic"]
            tname = f"S{i}"
            if style == "unit":
                types.append(f"#[derive(Collect)]\n#[collect(no_drop)]\npub struct {tname};")
                body, ref = [f"let v = {tname};"], "&v"
            else:
                ftys = [tyof(f, tname) for f in fields]
                rec = any(f in REC for f in fields)
                generic = gen != "none"
                decl_tys = list(ftys)
                if generic:
                    decl_tys[0] = "T"
                lifetime = any(uses_gc(f) for k, f in enumerate(fields) if not (generic and k == 0))
                params = ", ".join((["'gc"] if lifetime else []) + (["T"] if generic else []))
                params = f"<{params}>" if params else ""
                attr = "#[collect(no_drop)]" if gen != "bound" else "#[collect(no_drop, bound = \"where T: gc_arena::Collect<'gc>\")]"
                if gen == "bound" and not lifetime:
                    attr = "#[collect(no_drop, bound = \"where T: for<'a> gc_arena::Collect<'a>\")]" if False else "#[collect(no_drop, bound = \"where T: gc_arena::Collect<'gc>\")]"
                fl = []
                for k, ty in enumerate(decl_tys, 1):
                    req = "#[collect(require_static)] " if k in rs else ""
                    fl.append(f"{req}pub f{k}: {ty}" if style == "named" else f"{req}pub {ty}")
                if style == "named":
                    types.append(f"#[derive(Collect)]\n{attr}\npub struct {tname}{params} {{ {', '.join(fl)} }}")
                    inner = tname + " { " + ", ".join(f"f{k}: {'None' if f in REC else ex(f, '', 'e2')}" for k, f in enumerate(fields, 1)) + " }"
                    init = ", ".join(f"f{k}: {ex(f, inner)}" for k, f in enumerate(fields, 1))
                    body = (["let mut e2 = Exp::default();"] if rec else []) + [f"let v = {tname} {{ {init} }};"]
                else:
                    types.append(f"#[derive(Collect)]\n{attr}\npub struct {tname}{params}({', '.join(fl)});")
                    inner = tname + "(" + ", ".join(("None" if f in REC else ex(f, "", "e2")) for f in fields) + ")"
                    body = (["let mut e2 = Exp::default();"] if rec else []) + [f"let v = {tname}({', '.join(ex(f, inner) for f in fields)});"]
                ref = "&v"
        elif sh["kind"] == "enum":
            a, b, c, active, rs = sh["a"], sh["b"], sh["c"], sh["active"], set(sh["rs"])
            tname = f"E{i}"
            lifetime = any(uses_gc(x) for x in (a, b, c))
            params = "<'gc>" if lifetime else ""
            req = "#[collect(require_static)] " if 2 in rs else ""
            types.append(f"#[derive(Collect)]\n#[collect(no_drop)]\npub enum {tname}{params} {{ Unit, Tup({tyof(a, tname)}), Named {{ x: {tyof(b, tname)}, {req}y: {tyof(c, tname)} }} }}")
            inner = f"{tname}::Unit"
            val = {"Unit": f"{tname}::Unit", "Tup": f"{tname}::Tup({ex(a, inner)})",
                   "Named": f"{tname}::Named {{ x: {ex(b, inner)}, y: {ex(c, inner)} }}"}[active]
            tyann = f"{tname}<'gc>" if lifetime else tname
            body, ref = [f"let v: {tyann} = {val};"], "&v"
        cfg = f'#[cfg(feature = "{feat}")]\n' if feat else ""
        fns.append(f"{cfg}fn shape_{i}<'gc>(mc: &Mutation<'gc>) -> String {{\n    let mut e = Exp::default();\n    "
                   + "\n    ".join(body) + f"\n    observe({i}, {ref}, e)\n}}")
        calls.append((f'#[cfg(feature = "{feat}")]\n    ' if feat else "") + f"{{ out.push_str(&shape_{i}(mc)); out.push('\\n'); }}")
    with open(out_path, "w") as f:
        f.write("// GENERATED by /verif/gen/render_shapes.py from TLC's enumeration of TraceShape.tla -- do not edit\n")
        f.write("use gc_arena::{Collect, Gc, GcWeak, Mutation};\nuse super::{Exp, observe};\n\n")
        f.write('#[cfg(feature = "enum-map")]\n#[derive(enum_map::Enum, Clone, Copy)]\npub enum K2 { A, B }\n\n')
        f.write("pub trait ShapeDyn<'gc>: 'gc + gc_arena::collect::DynCollect<'gc> {}\n"
                "impl<'gc, T: Collect<'gc> + 'gc> ShapeDyn<'gc> for T {}\n"
                "gc_arena::collect::dyn_collect!(dyn ShapeDyn<'gc>);\n\n")
        f.write("mod types {\n    use gc_arena::{Collect, Gc, GcWeak};\n" + "\n".join("    " + t.replace("\n", "\n    ") for t in types) + "\n}\nuse types::*;\n\n")
        f.write("\n\n".join(fns))
        f.write("\n\npub fn run_all<'gc>(mc: &Mutation<'gc>, out: &mut String) {\n    " + "\n    ".join(calls) + "\n}\n")
    return len(shapes)


if __name__ == "__main__":
    print(render(sys.argv[1], sys.argv[2]))
